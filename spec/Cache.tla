---- MODULE Cache ----
(* C17, read path of the full-file cache transcribed step by step (fs/cache/store.cpp ICacheStore::preadv2 /          *)
(* do_refill_range / try_preadv2 / async_refill, fs/cache/full_file_cache/cache_store.cpp FileCacheStore              *)
(* try_preadv2 / do_preadv2 / do_pwritev / do_pwritev2 / queryRefillRange / evict, cache_pool.cpp eviction /          *)
(* evictOpenedFile / finalizeEvicted / forceRecycle, common/range-lock.h try_lock_wait).                              *)
(*                                                                                                                    *)
(* Units.  A position is a "unit"; BLK units make one 4K media block, RU units one refill unit (a multiple of BLK).   *)
(* A source file has SZ units (SZ % BLK # 0 = partial tail).  The content of source unit u is "correct data of u";   *)
(* the model only tracks WHERE correct data is: a set of units per buffer / per media file.                           *)
(*                                                                                                                    *)
(* Media file f: msize[f] (size), mok[f] (units holding the source's bytes), mbad[f] (units holding other non-zero   *)
(* bytes; only broken variants produce them), everything else reads as zero; alloc[f] = blocks that fiemap /         *)
(* SEEK_DATA report as data (a block is allocated when a write touches it); fmap[f] = the in-memory filled-range map  *)
(* (used instead of fiemap when Fiemap = FALSE).  A media write takes two steps (first half, second half) so that a   *)
(* block can be "allocated, not yet fully written".                                                                   *)
(*                                                                                                                    *)
(* Locks.  Store rwlock rw_lock_ (photon::rwlock: admission in arrival order, so a reader arriving while a writer     *)
(* waits queues behind it): rwr / rww / rwq.  Store byte-range lock range_lock_ (refill deduplication): rl.  Media    *)
(* byte-range lock rangeLock_ (query vs. write): mrl.  The pool mutex m_lock_ is a leaf lock (nothing is acquired     *)
(* and nothing blocks but media-fs calls while it is held), so every m_lock_ section is part of one atomic step.      *)
(* running = FileCachePool::running_ (one sweep at a time), isFull = isFull_, refilling = m_refilling.                *)
(*                                                                                                                    *)
(* Actors.  Readers r (NReads reads each, range chosen from ReadSet, file from 1..NF); a media writer W(r) per        *)
(* reader (inline: the reader waits for it; asynchronous: it runs on, keeping the range lock); one external evictor   *)
(* EV (explicit evict(name) or a timer sweep); a writer that finds the pool full runs a sweep itself (forceRecycle)   *)
(* while it still holds the store range lock.  Reopen = a new pool instance over the same media directory at rest.    *)
(* PunchEnd = CachedFile::fallocate(offset, -1) at rest.  As written (PunchGuard = FALSE) it truncates the media file   *)
(* TO the offset even when that extends it; a reopened pool then believes the larger size (finding C17a: TLC shows     *)
(* ReadsEqualSource / NeverBeyondSize violated in MC_Cache_kf_punchend.cfg, the real cache does the same in            *)
(* h_cache --prim punchend); with PunchGuard = TRUE (proposed repair) MC_Cache_t_punchend.cfg holds.                   *)
EXTENDS Naturals, Integers, Sequences, FiniteSets, TLC
CONSTANTS NF, SZ, BLK, RU, Readers, ReadSet, NReads, MaxEv, Async, MaxRefilling, Faults, Fiemap, CapFull, ReopenMax, PunchMax, PunchGuard, Bug
\* PunchMax: evict-to-end calls at rest (CachedFile::fallocate(offset, -1)); PunchGuard = FALSE models FileCacheStore::evict as written
\* (ftruncate(offset) whatever the size of the media file), TRUE the repaired one (never extends the media file)
\* Bug \in {"none", "nowlock", "nomrl", "earlymap", "asyncunlock", "noclamp", "shortok", "tailfront"} : broken variants (witnesses)
None == "none"
Files == 1..NF
RA(r) == <<"r", r>>          \* actor ids (holders of the rwlock)
WA(r) == <<"w", r>>
EV == <<"e", 0>>
NoA == <<"none", 0>>          \* nobody (rwlock writer slot)
NoL == <<0, 0, 0, 0>>          \* no range lock entry
EvActors == {EV} \cup {WA(r) : r \in Readers}
Min(S) == CHOOSE x \in S : \A y \in S : x <= y
Max(S) == CHOOSE x \in S : \A y \in S : x >= y
Down(x, a) == (x \div a) * a
Up(x, a) == ((x + a - 1) \div a) * a
Rng(lo, hi) == lo..(hi - 1)
BlocksOf(lo, hi) == {u \div BLK : u \in Rng(lo, hi)}
Ovl(a1, b1, a2, b2) == a1 < b2 /\ a2 < b1 /\ a1 < b1 /\ a2 < b2

VARIABLES asz, msize, mok, mbad, alloc, fmap, tdone,          \* store / media state per file
          rwr, rww, rwq, rl, mrl,                              \* locks per file
          lru, isFull, running, refilling,                     \* pool
          pc, rd, cur, mode, ubuf, uwrong, ret, faulted, nread, rf, buf, waiton,   \* readers
          wpc, winl, wf, wb,                                   \* media writers (wf = file, lo, hi, lock id; wb = buffer)
          epc, evict, sweep,                                   \* evictions (by actor)
          evleft, faultsleft, reopenleft, punchleft, beyond
vars == <<asz, msize, mok, mbad, alloc, fmap, tdone, rwr, rww, rwq, rl, mrl, lru, isFull, running, refilling,
          pc, rd, cur, mode, ubuf, uwrong, ret, faulted, nread, rf, buf, waiton, wpc, winl, wf, wb, epc, evict, sweep,
          evleft, faultsleft, reopenleft, punchleft, beyond>>
media == <<msize, mok, mbad, alloc, fmap, tdone>>
locks == <<rwr, rww, rwq, rl, mrl>>
pool == <<lru, isFull, running, refilling>>
rstate == <<pc, rd, cur, mode, ubuf, uwrong, ret, faulted, nread, rf, buf, waiton>>
wstate == <<wpc, winl, wf, wb>>
estate == <<epc, evict, sweep>>
budget == <<evleft, faultsleft, reopenleft, punchleft>>

NoRd == [f |-> 0, off |-> 0, len |-> 0, cnt |-> 0]
NoW == [f |-> 0, lo |-> 0, hi |-> 0, id |-> 0]
Init == /\ asz = [f \in Files |-> 0] /\ msize = [f \in Files |-> 0] /\ mok = [f \in Files |-> {}] /\ mbad = [f \in Files |-> {}]
        /\ alloc = [f \in Files |-> {}] /\ fmap = [f \in Files |-> {}] /\ tdone = [f \in Files |-> FALSE]
        /\ rwr = [f \in Files |-> {}] /\ rww = [f \in Files |-> NoA] /\ rwq = [f \in Files |-> {}]
        /\ rl = [f \in Files |-> {}] /\ mrl = [f \in Files |-> {}]
        /\ lru = [i \in 1..NF |-> i] /\ isFull = FALSE /\ running = FALSE /\ refilling = 0
        /\ pc = [r \in Readers |-> "idle"] /\ rd = [r \in Readers |-> NoRd] /\ cur = [r \in Readers |-> <<0, 0>>]
        /\ mode = [r \in Readers |-> "first"] /\ ubuf = [r \in Readers |-> {}] /\ uwrong = [r \in Readers |-> {}]
        /\ ret = [r \in Readers |-> 0] /\ faulted = [r \in Readers |-> FALSE] /\ nread = [r \in Readers |-> 0]
        /\ rf = [r \in Readers |-> <<0, 0>>] /\ buf = [r \in Readers |-> {}] /\ waiton = [r \in Readers |-> NoL]
        /\ wpc = [r \in Readers |-> None] /\ winl = [r \in Readers |-> FALSE]
        /\ wf = [r \in Readers |-> NoW] /\ wb = [r \in Readers |-> {}]
        /\ epc = [a \in EvActors |-> None] /\ evict = [a \in EvActors |-> 0] /\ sweep = [a \in EvActors |-> 0]
        /\ evleft = MaxEv /\ faultsleft = Faults /\ reopenleft = ReopenMax /\ punchleft = PunchMax /\ beyond = FALSE

Goto(r, s) == pc' = [pc EXCEPT ![r] = s]
F(r) == rd[r].f
\* user buffer: units of the request that hold the source's bytes (ubuf) / other bytes (uwrong)
PutUser(r, units, okunits) == /\ ubuf' = [ubuf EXCEPT ![r] = (@ \ units) \cup (units \cap okunits)]
                              /\ uwrong' = [uwrong EXCEPT ![r] = (@ \ units) \cup (units \ okunits)]
\* ------------------------------------------------------------------------------------------------ rwlock (arrival order)
CanR(f) == rww[f] = NoA /\ rwq[f] = {}
CanW(f) == rww[f] = NoA /\ rwr[f] = {}

\* ------------------------------------------------------------------------------------------------ hole query
\* cache_store.cpp:113-172 (fiemap) : trims data blocks from both ends of the 4K-aligned request, aligns the rest to RU
QFiemap(f, o, c) == LET aL == Down(o, BLK)  aR == Up(o + c, BLK)
                        nd == {b \in (aL \div BLK)..((aR \div BLK) - 1) : b \notin alloc[f]}
                    IN IF nd = {} THEN <<0, 0>>
                       ELSE LET hs == Min(nd) * BLK  he == (Max(nd) + 1) * BLK
                            IN <<Down(hs, RU), Up(he, RU) - Down(hs, RU)>>
\* cache_store.cpp:213-223 + range_module.h:70-79 (in-memory map): byte-exact, interior gaps ignored
QMap(f, o, c) == LET M == fmap[f]
                     hs == Min({u \in Rng(o, o + c) : u \notin M} \cup {o + c})
                 IN IF hs >= o + c THEN <<0, 0>>
                    ELSE LET last == o + c - 1
                             he == IF last \in M THEN Min({v \in Rng(hs, o + c) : Rng(v, o + c) \subseteq M}) ELSE o + c
                         IN <<Down(hs, RU), Up(he, RU) - Down(hs, RU)>>
Query(f, o, c) == IF Fiemap THEN QFiemap(f, o, c) ELSE QMap(f, o, c)

\* ================================================================================================ reader
Start(r) == /\ pc[r] = "idle" /\ nread[r] < NReads
            /\ \E f \in Files, q \in ReadSet :
                 rd' = [rd EXCEPT ![r] = [f |-> f, off |-> q[1], len |-> q[2], cnt |-> 0]]
            /\ ubuf' = [ubuf EXCEPT ![r] = {}] /\ uwrong' = [uwrong EXCEPT ![r] = {}]
            /\ faulted' = [faulted EXCEPT ![r] = FALSE] /\ mode' = [mode EXCEPT ![r] = "first"] /\ Goto(r, "clamp")
            /\ UNCHANGED <<asz, media, locks, pool, cur, ret, nread, rf, buf, waiton, wstate, estate, budget, beyond>>
\* store.cpp:50-66 : tryget_size() when the request reaches past the known size (a size that is not page aligned is
\* final), then "again:" clamp to the size
Clamp(r) == /\ pc[r] = "clamp"
            /\ LET f == F(r)  o == rd[r].off  n == rd[r].len
                   A == IF (o >= asz[f] \/ o + n > asz[f]) /\ asz[f] % BLK = 0 /\ asz[f] < SZ THEN SZ ELSE asz[f]
               IN /\ asz' = [asz EXCEPT ![f] = A]
                  /\ IF o >= A THEN /\ ret' = [ret EXCEPT ![r] = 0] /\ Goto(r, "done") /\ UNCHANGED <<rd, cur>>
                     ELSE LET c == IF Bug = "noclamp" THEN n ELSE IF o + n > A THEN A - o ELSE n IN
                          /\ rd' = [rd EXCEPT ![r].cnt = c] /\ cur' = [cur EXCEPT ![r] = <<o, c>>]
                          /\ Goto(r, "try_rl") /\ UNCHANGED ret
            /\ mode' = [mode EXCEPT ![r] = "first"]
            /\ UNCHANGED <<media, locks, pool, ubuf, uwrong, faulted, nread, rf, buf, waiton, wstate, estate, budget, beyond>>
\* cache_store.cpp:57-61 : try_preadv2 runs under the read lock
TryRLock(r) == /\ pc[r] = "try_rl" /\ CanR(F(r))
               /\ rwr' = [rwr EXCEPT ![F(r)] = @ \cup {RA(r)}] /\ Goto(r, "query")
               /\ UNCHANGED <<asz, media, rww, rwq, rl, mrl, pool, rd, cur, mode, ubuf, uwrong, ret, faulted, nread, rf, buf, waiton,
                              wstate, estate, budget, beyond>>
\* store.cpp:318-338 : hole query (under the media range lock: waits while a media write overlaps)
QueryStep(r) ==
  /\ pc[r] = "query"
  /\ LET f == F(r)  o == cur[r][1]  c == cur[r][2] IN
     /\ Bug = "nomrl" \/ \A m \in mrl[f] : ~Ovl(m[1], m[2], o, o + c)
     /\ LET q == Query(f, o, c) IN
        IF q[2] = 0 THEN Goto(r, "mread") /\ UNCHANGED <<rwr, rf>>
        ELSE /\ rwr' = [rwr EXCEPT ![f] = @ \ {RA(r)}]
             /\ IF mode[r] = "first" THEN rf' = [rf EXCEPT ![r] = q] /\ Goto(r, "lockrange")
                                     ELSE UNCHANGED rf /\ Goto(r, "srcdirect")
  /\ UNCHANGED <<asz, media, rww, rwq, rl, mrl, pool, rd, cur, mode, ubuf, uwrong, ret, faulted, nread, buf, waiton,
                 wstate, estate, budget, beyond>>
\* cache_store.cpp:63-71 : updateLru, media preadv into the caller's buffer; store.cpp:327-331 a short read falls back to the source
MRead(r) ==
  /\ pc[r] = "mread"
  /\ LET f == F(r)  o == cur[r][1]  c == cur[r][2]
         n == IF msize[f] >= o + c THEN c ELSE IF msize[f] > o THEN msize[f] - o ELSE 0
         got == Rng(o, o + n)
     IN /\ PutUser(r, got, mok[f])
        /\ rwr' = [rwr EXCEPT ![f] = @ \ {RA(r)}]
        /\ lru' = <<f>> \o SelectSeq(lru, LAMBDA x : x # f)
        /\ beyond' = (beyond \/ o + c > SZ)
        /\ IF n = c THEN ret' = [ret EXCEPT ![r] = rd[r].cnt] /\ Goto(r, "done")
                    ELSE UNCHANGED ret /\ Goto(r, "srcdirect")
  /\ UNCHANGED <<asz, media, rww, rwq, rl, mrl, isFull, running, refilling, rd, cur, mode, faulted, nread, rf, buf, waiton,
                 wstate, estate, budget>>
\* store.cpp:210-212 : clamp the refill range to the size, range_lock_.try_lock_wait
LockRange(r) ==
  /\ pc[r] = "lockrange"
  /\ LET f == F(r)  ro == rf[r][1]
         rs == IF Bug # "noclamp" /\ ro + rf[r][2] > asz[f] THEN asz[f] - ro ELSE rf[r][2]
         conf == {k \in rl[f] : Ovl(k[1], k[2], ro, ro + rs)}
     IN IF conf # {}
        THEN /\ waiton' = [waiton EXCEPT ![r] = (CHOOSE k \in conf : \A k2 \in conf : k[1] <= k2[1])]
             /\ Goto(r, "rangewait") /\ UNCHANGED <<rl, rf>>
        ELSE /\ rl' = [rl EXCEPT ![f] = @ \cup {<<ro, ro + rs, r, nread[r]>>}] /\ rf' = [rf EXCEPT ![r] = <<ro, rs>>]
             /\ Goto(r, "srcread") /\ UNCHANGED waiton
  /\ UNCHANGED <<asz, media, rwr, rww, rwq, mrl, pool, rd, cur, mode, ubuf, uwrong, ret, faulted, nread, buf,
                 wstate, estate, budget, beyond>>
\* the conflicting range was released: try_lock_wait returns -1, do_refill_range returns -EAGAIN, preadv2 goes to "again"
RangeWait(r) == /\ pc[r] = "rangewait" /\ waiton[r] \notin rl[F(r)]
                /\ waiton' = [waiton EXCEPT ![r] = NoL] /\ Goto(r, "clamp")
                /\ UNCHANGED <<asz, media, locks, pool, rd, cur, mode, ubuf, uwrong, ret, faulted, nread, rf, buf, wstate, estate, budget, beyond>>
\* store.cpp:235-284 : source read of the refill range into a buffer; a failed or short read fails the call; copy the
\* overlapping part to the caller (three placements); hand the buffer to the media writer (asynchronous or inline).
\* (bound of the model: one media writer per reader at a time - the reader's next refill waits for its previous asynchronous writer)
SrcRead(r) ==
  /\ pc[r] = "srcread" /\ wpc[r] = None
  /\ LET f == F(r)  ro == rf[r][1]  rs == rf[r][2]  o == cur[r][1]  c == cur[r][2]
         avail == IF ro + rs <= SZ THEN rs ELSE IF ro < SZ THEN SZ - ro ELSE 0       \* what the source can deliver
         myl == {x \in rl[f] : x[3] = r /\ x[4] = nread[r]}
     IN /\ beyond' = (beyond \/ ro + rs > SZ)
        /\ \E k \in {avail} \cup (IF faultsleft > 0 THEN {-1} \cup 0..(avail - 1) ELSE {}) :      \* -1 error, < avail short
             /\ faultsleft' = IF k # avail THEN faultsleft - 1 ELSE faultsleft
             /\ faulted' = [faulted EXCEPT ![r] = @ \/ k # avail]
             /\ IF k # rs /\ ~(Bug = "shortok" /\ k >= 0)
                THEN \* LOG_ERRNO_RETURN(0, -1, "src file read failed"): the DEFER releases the range lock
                     /\ rl' = [rl EXCEPT ![f] = @ \ myl]
                     /\ ret' = [ret EXCEPT ![r] = -1] /\ Goto(r, "done")
                     /\ UNCHANGED <<buf, cur, ubuf, uwrong, refilling, wstate>>
                ELSE LET B == Rng(ro, ro + (IF k < 0 THEN 0 ELSE k))                \* buffer units holding source bytes
                         n == IF ro <= o THEN (IF c <= ro + rs - o THEN c ELSE ro + rs - o)
                              ELSE IF ro + rs >= o + c THEN c - (ro - o) ELSE 0
                         cp == IF ro <= o THEN Rng(o, o + n) ELSE IF n > 0 THEN Rng(ro, o + c) ELSE {}
                         \* broken placement: the tail part is put at the front of the caller's buffer
                         dst == IF Bug = "tailfront" /\ ro > o /\ n > 0 THEN Rng(o, o + n) ELSE cp
                         async == Async /\ n # 0 /\ refilling < MaxRefilling
                     IN /\ buf' = [buf EXCEPT ![r] = {}]
                        /\ IF dst = cp THEN PutUser(r, cp, B) ELSE PutUser(r, dst, {})
                        /\ cur' = [cur EXCEPT ![r] = IF ro <= o THEN <<o + n, c - n>> ELSE <<o, c - n>>]
                        /\ refilling' = refilling + 1
                        /\ wpc' = [wpc EXCEPT ![r] = "w_start"] /\ winl' = [winl EXCEPT ![r] = ~async]
                        /\ wf' = [wf EXCEPT ![r] = [f |-> f, lo |-> ro, hi |-> ro + rs, id |-> nread[r]]] /\ wb' = [wb EXCEPT ![r] = B]
                        /\ rl' = IF async /\ Bug = "asyncunlock" THEN [rl EXCEPT ![f] = @ \ myl] ELSE rl
                        /\ IF ~async THEN Goto(r, "waitw") /\ UNCHANGED ret
                           ELSE IF n = c THEN ret' = [ret EXCEPT ![r] = rd[r].cnt] /\ Goto(r, "done")
                           ELSE Goto(r, "reread") /\ UNCHANGED ret
  /\ UNCHANGED <<asz, media, rwr, rww, rwq, mrl, lru, isFull, running, rd, mode, nread, rf, waiton, estate, evleft, reopenleft, punchleft>>
\* inline media write finished (store.cpp:287): re-read the remainder cache-only
WaitW(r) == /\ pc[r] = "waitw" /\ wpc[r] = None
            /\ IF cur[r][2] = 0 THEN ret' = [ret EXCEPT ![r] = rd[r].cnt] /\ Goto(r, "done") ELSE Goto(r, "reread") /\ UNCHANGED ret
            /\ UNCHANGED <<asz, media, locks, pool, rd, cur, mode, ubuf, uwrong, faulted, nread, rf, buf, waiton, wstate, estate, budget, beyond>>
Reread(r) == /\ pc[r] = "reread" /\ mode' = [mode EXCEPT ![r] = "reread"] /\ Goto(r, "try_rl")
             /\ UNCHANGED <<asz, media, locks, pool, rd, cur, ubuf, uwrong, ret, faulted, nread, rf, buf, waiton, wstate, estate, budget, beyond>>
\* store.cpp:86 (first pass, after a short media read) / store.cpp:294 (remainder): plain source read into the caller's buffer
SrcDirect(r) ==
  /\ pc[r] = "srcdirect"
  /\ LET f == F(r)  o == cur[r][1]  c == cur[r][2]
         avail == IF o + c <= SZ THEN c ELSE IF o < SZ THEN SZ - o ELSE 0
     IN /\ beyond' = (beyond \/ o + c > SZ)
        /\ \E k \in {avail} \cup (IF faultsleft > 0 THEN {-1} \cup 0..(avail - 1) ELSE {}) :
             /\ faultsleft' = IF k # avail THEN faultsleft - 1 ELSE faultsleft
             /\ faulted' = [faulted EXCEPT ![r] = @ \/ k # avail]
             /\ LET got == Rng(o, o + (IF k < 0 THEN 0 ELSE k)) IN PutUser(r, got, got)
             /\ ret' = [ret EXCEPT ![r] = IF mode[r] = "first" THEN k                       \* return tr.size
                                          ELSE IF k = c THEN rd[r].cnt ELSE -1]            \* tr.size + ret != count -> -1
        /\ Goto(r, "done")
  /\ UNCHANGED <<asz, media, locks, pool, rd, cur, mode, nread, rf, buf, waiton, wstate, estate, evleft, reopenleft, punchleft>>
Finish(r) == /\ pc[r] = "done" /\ Goto(r, "idle") /\ nread' = [nread EXCEPT ![r] = @ + 1]
             /\ rd' = [rd EXCEPT ![r] = NoRd] /\ cur' = [cur EXCEPT ![r] = <<0, 0>>] /\ ubuf' = [ubuf EXCEPT ![r] = {}]
             /\ uwrong' = [uwrong EXCEPT ![r] = {}] /\ ret' = [ret EXCEPT ![r] = 0] /\ faulted' = [faulted EXCEPT ![r] = FALSE]
             /\ mode' = [mode EXCEPT ![r] = "first"]
             /\ UNCHANGED <<asz, media, locks, pool, rf, buf, waiton, wstate, estate, budget, beyond>>

\* ================================================================================================ media writer W(r)
\* cache_store.cpp:100-111 do_pwritev2, 73-98 do_pwritev; store.cpp:181-199 async_refill / 273-284 inline
WGoto(r, s) == wpc' = [wpc EXCEPT ![r] = s]
WF(r) == wf[r].f
WStart(r) == /\ wpc[r] = "w_start"
             /\ WGoto(r, IF isFull THEN "w_end" ELSE "w_rl")                        \* cacheIsFull(): ENOSPC, nothing written
             /\ UNCHANGED <<asz, media, locks, pool, rstate, winl, wf, wb, estate, budget, beyond>>
WRLock(r) == /\ wpc[r] = "w_rl" /\ CanR(WF(r)) /\ rwr' = [rwr EXCEPT ![WF(r)] = @ \cup {WA(r)}] /\ WGoto(r, "w_trunc")
             /\ UNCHANGED <<asz, media, rww, rwq, rl, mrl, pool, rstate, winl, wf, wb, estate, budget, beyond>>
\* if (!truncate_done) ftruncate(actual_size_)
WTrunc(r) == /\ wpc[r] = "w_trunc"
             /\ LET f == WF(r) IN
                IF tdone[f] THEN UNCHANGED media
                ELSE /\ msize' = [msize EXCEPT ![f] = asz[f]] /\ tdone' = [tdone EXCEPT ![f] = TRUE]
                     /\ mok' = [mok EXCEPT ![f] = {u \in @ : u < asz[f]}] /\ mbad' = [mbad EXCEPT ![f] = {u \in @ : u < asz[f]}]
                     /\ alloc' = [alloc EXCEPT ![f] = {b \in @ : b * BLK < asz[f]}] /\ UNCHANGED fmap
             /\ WGoto(r, "w_mrl")
             /\ UNCHANGED <<asz, locks, pool, rstate, winl, wf, wb, estate, budget, beyond>>
WMrl(r) == /\ wpc[r] = "w_mrl"
           /\ LET f == WF(r) IN
              /\ \A m \in mrl[f] : ~Ovl(m[1], m[2], wf[r].lo, wf[r].hi)
              /\ mrl' = [mrl EXCEPT ![f] = @ \cup {<<wf[r].lo, wf[r].hi, r>>}]
           /\ WGoto(r, "w_p1")
           /\ UNCHANGED <<asz, media, rwr, rww, rwq, rl, pool, rstate, winl, wf, wb, estate, budget, beyond>>
\* pwritev, first part: the blocks are allocated, the lower half of the units is written
WriteUnits(f, units, B) == /\ mok' = [mok EXCEPT ![f] = (@ \ units) \cup (units \cap B)]
                           /\ mbad' = [mbad EXCEPT ![f] = (@ \ units) \cup (units \ B)]
Half(lo, hi) == lo + ((hi - lo + 1) \div 2)
WPart1(r) == /\ wpc[r] = "w_p1"
             /\ LET f == WF(r)  lo == wf[r].lo  hi == wf[r].hi IN
                /\ WriteUnits(f, Rng(lo, Half(lo, hi)), wb[r])
                /\ alloc' = [alloc EXCEPT ![f] = @ \cup BlocksOf(lo, hi)]
                /\ msize' = [msize EXCEPT ![f] = IF @ < hi THEN hi ELSE @]
                /\ fmap' = IF Bug = "earlymap" /\ ~Fiemap THEN [fmap EXCEPT ![f] = @ \cup Rng(lo, hi)] ELSE fmap
             /\ WGoto(r, "w_p2")
             /\ UNCHANGED <<asz, tdone, locks, pool, rstate, winl, wf, wb, estate, budget, beyond>>
WPart2(r) == /\ wpc[r] = "w_p2"
             /\ LET f == WF(r)  lo == wf[r].lo  hi == wf[r].hi IN
                /\ WriteUnits(f, Rng(Half(lo, hi), hi), wb[r])
                /\ mrl' = [mrl EXCEPT ![f] = {m \in @ : m[3] # r}]
             /\ WGoto(r, "w_fin")
             /\ UNCHANGED <<asz, msize, alloc, fmap, tdone, rwr, rww, rwq, rl, pool, rstate, winl, wf, wb, estate, budget, beyond>>
\* addFilledRange, updateLru, updateSpace (may find the pool full), end of the read-locked section; then forceRecycle if full
WFin(r) == /\ wpc[r] = "w_fin"
           /\ LET f == WF(r) IN
              /\ fmap' = IF Fiemap THEN fmap ELSE [fmap EXCEPT ![f] = @ \cup Rng(wf[r].lo, wf[r].hi)]
              /\ lru' = <<f>> \o SelectSeq(lru, LAMBDA x : x # f)
              /\ isFull' = (isFull \/ CapFull)
              /\ rwr' = [rwr EXCEPT ![f] = @ \ {WA(r)}]
              /\ WGoto(r, IF isFull' THEN "w_recycle" ELSE "w_end")
           /\ UNCHANGED <<asz, msize, mok, mbad, alloc, tdone, rww, rwq, rl, mrl, running, refilling, rstate, winl, wf, wb, estate, budget, beyond>>
\* forceRecycle -> timerHandler: only one sweep at a time
WRecycle(r) == /\ wpc[r] = "w_recycle"
               /\ IF running THEN WGoto(r, "w_end") /\ UNCHANGED <<running, epc, sweep>>
                  ELSE /\ running' = TRUE /\ epc' = [epc EXCEPT ![WA(r)] = "e_pick"] /\ sweep' = [sweep EXCEPT ![WA(r)] = NF]
                       /\ WGoto(r, "w_sweeping")
               /\ UNCHANGED <<asz, media, locks, lru, isFull, refilling, rstate, winl, wf, wb, evict, budget, beyond>>
WSweepDone(r) == /\ wpc[r] = "w_sweeping" /\ epc[WA(r)] = None /\ WGoto(r, "w_end")
                 /\ UNCHANGED <<asz, media, locks, pool, rstate, winl, wf, wb, estate, budget, beyond>>
\* m_refilling--, range_lock_.unlock
WEnd(r) == /\ wpc[r] = "w_end" /\ refilling' = refilling - 1
           /\ rl' = [rl EXCEPT ![WF(r)] = {x \in @ : ~(x[3] = r /\ x[4] = wf[r].id)}] /\ WGoto(r, None)
           /\ wf' = [wf EXCEPT ![r] = NoW] /\ wb' = [wb EXCEPT ![r] = {}]
           /\ UNCHANGED <<asz, media, rwr, rww, rwq, mrl, lru, isFull, running, rstate, winl, estate, budget, beyond>>

\* ================================================================================================ eviction
\* external: FileCachePool::evict(name) (no running_ guard) or the timer (a sweep)
EvStart == /\ evleft > 0 /\ epc[EV] = None /\ evleft' = evleft - 1
           /\ \/ \E f \in Files : /\ evict' = [evict EXCEPT ![EV] = f] /\ sweep' = [sweep EXCEPT ![EV] = -1]
                                  /\ epc' = [epc EXCEPT ![EV] = "e_wq"] /\ UNCHANGED running
              \/ /\ ~running /\ running' = TRUE /\ sweep' = [sweep EXCEPT ![EV] = NF]
                 /\ epc' = [epc EXCEPT ![EV] = "e_pick"] /\ UNCHANGED evict
           /\ UNCHANGED <<asz, media, locks, lru, isFull, refilling, rstate, wstate, faultsleft, reopenleft, punchleft, beyond>>
\* cache_pool.cpp:383-418 : next victim = LRU tail (an open file is moved to the front), or the sweep ends (isFull_ = false).
\* sweep[a] = victims the sweep may still take (a sweep visits every file at most once: a file it has emptied has size 0)
EPick(a) == /\ epc[a] = "e_pick"
            /\ \/ /\ sweep[a] > 0 /\ sweep' = [sweep EXCEPT ![a] = @ - 1]
                  /\ evict' = [evict EXCEPT ![a] = lru[Len(lru)]]
                  /\ lru' = <<lru[Len(lru)]>> \o SubSeq(lru, 1, Len(lru) - 1)
                  /\ isFull' = TRUE /\ epc' = [epc EXCEPT ![a] = "e_wq"] /\ UNCHANGED running
               \/ /\ running' = FALSE /\ isFull' = FALSE /\ epc' = [epc EXCEPT ![a] = None] /\ sweep' = [sweep EXCEPT ![a] = 0]
                  /\ UNCHANGED <<evict, lru>>
            /\ UNCHANGED <<asz, media, locks, refilling, rstate, wstate, budget, beyond>>
\* evictOpenedFile: scoped_rwlock(WLOCK)
EWq(a) == /\ epc[a] = "e_wq"
          /\ LET f == evict[a] IN
             IF Bug = "nowlock" THEN epc' = [epc EXCEPT ![a] = "e_trunc"] /\ UNCHANGED <<rww, rwq>>
             ELSE IF CanW(f) /\ rwq[f] = {} THEN rww' = [rww EXCEPT ![f] = a] /\ epc' = [epc EXCEPT ![a] = "e_trunc"] /\ UNCHANGED rwq
             ELSE rwq' = [rwq EXCEPT ![f] = @ \cup {a}] /\ epc' = [epc EXCEPT ![a] = "e_wl"] /\ UNCHANGED rww
          /\ UNCHANGED <<asz, media, rwr, rl, mrl, pool, rstate, wstate, evict, sweep, budget, beyond>>
EWl(a) == /\ epc[a] = "e_wl" /\ CanW(evict[a])
          /\ rww' = [rww EXCEPT ![evict[a]] = a] /\ rwq' = [rwq EXCEPT ![evict[a]] = @ \ {a}]
          /\ epc' = [epc EXCEPT ![a] = "e_trunc"]
          /\ UNCHANGED <<asz, media, rwr, rl, mrl, pool, rstate, wstate, evict, sweep, budget, beyond>>
\* cacheStore->evict(0): ftruncate(0) + removeFilledRange; end of the write-locked section
ETrunc(a) == /\ epc[a] = "e_trunc"
             /\ LET f == evict[a] IN
                /\ msize' = [msize EXCEPT ![f] = 0] /\ mok' = [mok EXCEPT ![f] = {}] /\ mbad' = [mbad EXCEPT ![f] = {}]
                /\ alloc' = [alloc EXCEPT ![f] = {}] /\ fmap' = [fmap EXCEPT ![f] = {}]
                /\ rww' = IF rww[f] = a THEN [rww EXCEPT ![f] = NoA] ELSE rww
             /\ epc' = [epc EXCEPT ![a] = "e_final"]
             /\ UNCHANGED <<asz, tdone, rwr, rwq, rl, mrl, pool, rstate, wstate, evict, sweep, budget, beyond>>
\* finalizeEvicted (under m_lock_): truncate_done = false
EFinal(a) == /\ epc[a] = "e_final"
             /\ tdone' = [tdone EXCEPT ![evict[a]] = FALSE]
             /\ epc' = [epc EXCEPT ![a] = IF sweep[a] >= 0 THEN "e_pick" ELSE None]
             /\ sweep' = [sweep EXCEPT ![a] = IF @ < 0 THEN 0 ELSE @]
             /\ UNCHANGED <<asz, msize, mok, mbad, alloc, fmap, locks, pool, rstate, wstate, evict, budget, beyond>>

\* ================================================================================================ reopen
AtRest == /\ \A r \in Readers : pc[r] = "idle" /\ wpc[r] = None
          /\ \A a \in EvActors : epc[a] = None
\* a new pool instance over the same media directory: sizes from fstat, the map from SEEK_DATA / SEEK_HOLE
Reopen == /\ reopenleft > 0 /\ AtRest /\ reopenleft' = reopenleft - 1
          /\ asz' = msize /\ tdone' = [f \in Files |-> FALSE]
          /\ fmap' = [f \in Files |-> IF Fiemap THEN {} ELSE {u \in Rng(0, msize[f]) : u \div BLK \in alloc[f]}]
          /\ lru' = [i \in 1..NF |-> i] /\ isFull' = FALSE
          /\ UNCHANGED <<msize, mok, mbad, alloc, locks, running, refilling, rstate, wstate, estate, evleft, faultsleft, punchleft, beyond>>
\* CachedFile::fallocate(offset, -1) at rest (no read in flight) -> FileCacheStore::evict(offset, -1): ftruncate(offset) on the media
\* file + removeFilledRange; offsets are block aligned (as the API demands), up to the first block boundary past the end
PunchEnd == /\ punchleft > 0 /\ AtRest /\ punchleft' = punchleft - 1
            /\ \E f \in Files, b \in 0..(Up(SZ, BLK) \div BLK) :
                 LET o == b * BLK IN
                 IF PunchGuard /\ o >= msize[f] THEN UNCHANGED media
                 ELSE /\ msize' = [msize EXCEPT ![f] = o]
                      /\ mok' = [mok EXCEPT ![f] = {u \in @ : u < o}] /\ mbad' = [mbad EXCEPT ![f] = {u \in @ : u < o}]
                      /\ alloc' = [alloc EXCEPT ![f] = {x \in @ : x * BLK < o}] /\ fmap' = [fmap EXCEPT ![f] = {u \in @ : u < o}]
                      /\ UNCHANGED tdone
            /\ UNCHANGED <<asz, locks, pool, rstate, wstate, estate, evleft, faultsleft, reopenleft, beyond>>
Finished == AtRest /\ (\A r \in Readers : nread[r] = NReads) /\ UNCHANGED vars

Next == \/ \E r \in Readers : \/ Start(r) \/ Clamp(r) \/ TryRLock(r) \/ QueryStep(r) \/ MRead(r) \/ LockRange(r) \/ RangeWait(r)
                              \/ SrcRead(r) \/ WaitW(r) \/ Reread(r) \/ SrcDirect(r) \/ Finish(r)
                              \/ WStart(r) \/ WRLock(r) \/ WTrunc(r) \/ WMrl(r) \/ WPart1(r) \/ WPart2(r) \/ WFin(r)
                              \/ WRecycle(r) \/ WSweepDone(r) \/ WEnd(r)
        \/ EvStart \/ \E a \in EvActors : EPick(a) \/ EWq(a) \/ EWl(a) \/ ETrunc(a) \/ EFinal(a)
        \/ Reopen \/ PunchEnd \/ Finished
Spec == Init /\ [][Next]_vars

\* ================================================================================================ properties
ReqUnits(r) == Rng(rd[r].off, rd[r].off + rd[r].cnt)
\* every completed read returned exactly the source's bytes for its clamped range and the right count; without a source
\* fault a read does not fail
ReadsEqualSource ==
  \A r \in Readers : pc[r] = "done" =>
     LET o == rd[r].off  want == IF o >= SZ THEN 0 ELSE IF o + rd[r].len > SZ THEN SZ - o ELSE rd[r].len IN
     \/ ret[r] = want /\ Rng(o, o + want) \subseteq ubuf[r] /\ uwrong[r] \cap Rng(o, o + want) = {}
     \/ faulted[r] /\ (ret[r] = -1 \/ (ret[r] >= 0 /\ ret[r] < want))
\* a failed source read fails the cached read or shortens it; what is returned is still the source's bytes
FailedSourceNeverWrongBytes ==
  \A r \in Readers : (pc[r] = "done" /\ faulted[r] /\ ret[r] >= 0) =>
     (Rng(rd[r].off, rd[r].off + ret[r]) \subseteq ubuf[r] /\ uwrong[r] \cap Rng(rd[r].off, rd[r].off + ret[r]) = {})
NeverBeyondSize == ~beyond
\* what the hole query reports as present (allocated block / filled-range map), and is not being written right now, holds
\* the source's bytes
Marked(f, u) == IF Fiemap THEN u \div BLK \in alloc[f] ELSE u \in fmap[f]
InWrite(f, u) == \E m \in mrl[f] : m[1] <= u /\ u < m[2]
MediaOnlyCorrectOrHole == \A f \in Files : \A u \in Rng(0, SZ) : (Marked(f, u) /\ ~InWrite(f, u)) => u \in mok[f]
\* two refills (source read + media write) of overlapping ranges of a file are never in progress together
Act == {<<"r", r>> : r \in {x \in Readers : pc[x] = "srcread"}} \cup {<<"w", r>> : r \in {x \in Readers : wpc[x] # None}}
ActF(a) == IF a[1] = "r" THEN F(a[2]) ELSE wf[a[2]].f
ActLo(a) == IF a[1] = "r" THEN rf[a[2]][1] ELSE wf[a[2]].lo
ActHi(a) == IF a[1] = "r" THEN rf[a[2]][1] + rf[a[2]][2] ELSE wf[a[2]].hi
RefillDedup == \A a1, a2 \in Act : (a1 # a2 /\ ActF(a1) = ActF(a2)) => ~Ovl(ActLo(a1), ActHi(a1), ActLo(a2), ActHi(a2))
RangeLockDisjoint == \A f \in Files : \A k1, k2 \in rl[f] : k1 # k2 => ~Ovl(k1[1], k1[2], k2[1], k2[2])
RefillingCount == refilling = Cardinality({r \in Readers : wpc[r] # None})
LocksAtRest == AtRest => /\ \A f \in Files : rwr[f] = {} /\ rww[f] = NoA /\ rwq[f] = {} /\ rl[f] = {} /\ mrl[f] = {}
                         /\ refilling = 0 /\ ~running
TypeOK == /\ \A f \in Files : msize[f] \in 0..Up(SZ, RU) /\ asz[f] \in 0..SZ
          /\ \A r \in Readers : cur[r][2] >= 0
====
