SPECIFICATION FairSpec
CONSTANTS
  Kind = "spsc"
  Cap = 4
  M = 16
  MarkMod = 16
  Prod = {1}
  Cons = {3}
  Prog <- Prog_s4
  StartSet = {0, 11, 13, 15}
  Bug = "none"
INVARIANTS ExactlyOnce FifoLinearizable PerProducerOrder CapacityBound NoTornSlot
PROPERTY Terminates
