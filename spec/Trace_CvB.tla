---- MODULE Trace_CvB ----
(* Tier-B trace validation for condition_variable::wait(mutex) (C03): the order of the hook events emitted inside the      *)
(* library shows directly whether release-and-wait is atomic.  For a waiter t that called wait (Inv cvwait, holding the      *)
(* mutex M):  hSleep{t, q = the condition variable} -- t is linked into the wait queue -- must come BEFORE the                *)
(* hMtxUnlock{M} that releases t's ownership (the deferred unlock, executed on the next thread's stack).  An unlock of M      *)
(* while its owner has called wait() and is not yet linked into the queue is the gap in which a notification is lost; it is   *)
(* rejected on ANY execution that passes through such code, whether or not a notifier happened to run in the gap.             *)
EXTENDS Naturals, Integers, Sequences, FiniteSets, TLC, Json, IOUtils
Tr == ndJsonDeserialize(IOEnv.TRACE)
T == (1..12) \cup {91, 99, 100}
M == 200
CV == 201
VARIABLES l, owner, wph
vars == <<l, owner, wph>>
Init == l = 1 /\ owner = 0 /\ wph = [t \in T |-> "none"] /\ TLCSet(1, 0)
Ev(e) == l <= Len(Tr) /\ Tr[l].e = e /\ l' = l + 1
R == Tr[l]
Reset == Ev("Reset") /\ owner' = 0 /\ wph' = [t \in T |-> "none"]
MtxTry == /\ Ev("hMtxTry")
          /\ IF R.m = M /\ R.ok = 1 THEN owner = 0 /\ owner' = R.t ELSE UNCHANGED owner
          /\ UNCHANGED wph
MtxUnlock == /\ Ev("hMtxUnlock")
             /\ IF R.m = M
                THEN /\ owner \in T => wph[owner] # "inv"          \* the owner has called wait(): it must already be in the queue
                     /\ owner' = R.h
                ELSE UNCHANGED owner
             /\ UNCHANGED wph
Inv == /\ Ev("Inv")
       /\ IF R.op = "cvwait" /\ R.t \in T THEN owner = R.t /\ wph' = [wph EXCEPT ![R.t] = "inv"] ELSE UNCHANGED wph
       /\ UNCHANGED owner
Sleep == /\ Ev("hSleep")
         /\ IF R.q = CV /\ R.t \in T THEN wph[R.t] = "inv" /\ wph' = [wph EXCEPT ![R.t] = "enq"] ELSE UNCHANGED wph
         /\ UNCHANGED owner
Resp == /\ Ev("Resp")
        /\ IF R.op = "cvwait" /\ R.t \in T THEN wph[R.t] = "enq" /\ owner = R.t /\ wph' = [wph EXCEPT ![R.t] = "none"] ELSE UNCHANGED wph
        /\ UNCHANGED owner
Other == /\ l <= Len(Tr) /\ Tr[l].e \notin {"Reset", "hMtxTry", "hMtxUnlock", "Inv", "hSleep", "Resp"} /\ l' = l + 1 /\ UNCHANGED <<owner, wph>>
Next == Reset \/ MtxTry \/ MtxUnlock \/ Inv \/ Sleep \/ Resp \/ Other
Spec == Init /\ [][Next]_vars
NotAccepted == l <= Len(Tr)
Progress == TLCSet(1, IF TLCGet(1) < l THEN l ELSE TLCGet(1))
Post == PrintT(<<"MAXL", TLCGet(1), Len(Tr)>>)
====
