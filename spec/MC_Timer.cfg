SPECIFICATION FairSpec
CONSTANTS
  StaleReasons = TRUE
  MaxFires = 2
  Repeating = TRUE
INVARIANTS DtorCancelsPending CancelMeansNoFire
PROPERTY DtorTerminates
