------------------------------ MODULE IOVectorOps ------------------------------
(* C14  iovector: every operation equals its effect on the flat byte sequence.          *)
(*                                                                                      *)
(* A vector is a sequence of elements [b, o, n]: n bytes of buffer b starting at byte   *)
(* offset o.  A byte id (address) is <<b, position>>, position 1-based.  Flat(v) is the *)
(* concatenation of the byte ids of the elements.  Memory is a function buffer id ->    *)
(* sequence of values.                                                                  *)
(*                                                                                      *)
(* Part 1  (Impl...)  element-wise algorithms transcribed from common/iovector.cpp and  *)
(*                    common/iovector.h (pointer arithmetic on (b, o), callbacks, the   *)
(*                    owning wrappers that re-derive iov_begin/iov_end from the view).  *)
(* Part 2  (Ref..., Judge)  the declarative reference on the flat byte sequence, and    *)
(*                    Judge(S, op, P): the set of clauses of C14 that the outcome P of  *)
(*                    operation op in state S violates.  Judge is applied by IOVector   *)
(*                    to the outcome of the transcription (TLC, exhaustive scope) and   *)
(*                    by Trace_IOVector to outcomes recorded from the real code.        *)
EXTENDS Integers, Sequences, FiniteSets, TLC

INFSZ == 1000000      \* stands for SIZE_MAX (the default `size` of memcpy_to/pipe_to ...)
SLOT  == 16           \* sizeof(struct iovec)
NOCAP == 99           \* "no limit on the number of pieces" (discard / copy-out callbacks)
Min2(a, b) == IF a < b THEN a ELSE b
Max2(a, b) == IF a > b THEN a ELSE b
Min3(a, b, c) == Min2(a, Min2(b, c))

El(b, o, n) == [b |-> b, o |-> o, n |-> n]
RECURSIVE Sum(_)
Sum(v) == IF v = <<>> THEN 0 ELSE v[1].n + Sum(Tail(v))
Addrs(e) == [j \in 1..e.n |-> <<e.b, e.o + j>>]
RECURSIVE Flat(_)
Flat(v) == IF v = <<>> THEN <<>> ELSE Addrs(v[1]) \o Flat(Tail(v))
Take(s, k) == SubSeq(s, 1, Min2(k, Len(s)))
Drop(s, k) == SubSeq(s, Min2(k, Len(s)) + 1, Len(s))
TakeLast(s, k) == SubSeq(s, Len(s) - Min2(k, Len(s)) + 1, Len(s))
DropLast(s, k) == SubSeq(s, 1, Len(s) - Min2(k, Len(s)))
Reverse(s) == [i \in 1..Len(s) |-> s[Len(s) + 1 - i]]

(* ------------------------------- memory ------------------------------------------- *)
Fresh(id, len) == [j \in 1..len |-> (32 * id + j) % 256]     \* initial content of a buffer
InBuf(mem, b, o, n) == n = 0 \/ (b \in DOMAIN mem /\ o >= 0 /\ o + n <= Len(mem[b]))
ValidEl(mem, e) == InBuf(mem, e.b, e.o, e.n)
Content(mem, as) == [k \in 1..Len(as) |-> mem[as[k][1]][as[k][2]]]
\* write vals[k] to address as[k] (the reference's notion of "these bytes now hold ...")
WriteAddrs(mem, as, vals) ==
  [id \in DOMAIN mem |-> [j \in 1..Len(mem[id]) |->
      IF \E k \in 1..Len(as) : as[k] = <<id, j>>
      THEN vals[CHOOSE k \in 1..Len(as) : as[k] = <<id, j>> /\ \A k2 \in (k+1)..Len(as) : as[k2] # <<id, j>>]
      ELSE mem[id][j]]]
\* memcpy(db+dO, sb+sO, n) of the implementation; an access outside a buffer is recorded, not performed
MemCpy(mem, db, dO, sb, sO, n) ==
  IF ~InBuf(mem, db, dO, n) \/ ~InBuf(mem, sb, sO, n) THEN [mem |-> mem, oob |-> TRUE]
  ELSE IF n = 0 THEN [mem |-> mem, oob |-> FALSE]
  ELSE [mem |-> [mem EXCEPT ![db] = [j \in 1..Len(mem[db]) |->
                     IF j > dO /\ j <= dO + n THEN mem[sb][sO + (j - dO)] ELSE mem[db][j]]],
        oob |-> FALSE]

(* ------------------------------- states -------------------------------------------- *)
(* S = [v, mem, own, ff, bf, nb, nx, cap, amax]                                         *)
(*   own: iovector (TRUE) or iovector_view (FALSE); ff/bf: free iovec slots before      *)
(*   iov_begin / after iov_end; nb: nbases; cap: capacity; nx: id the allocator gives   *)
(*   to its next buffer; amax: largest block the allocator hands out (requests whose    *)
(*   minimum exceeds it fail).                                                          *)
(* P = outcome: [ret, v, mem, ff, bf, nb, nx, dv, ptr, oob, slot0]                      *)
(*   dv: destination vector / other operand after the call; ptr: <<b, o>> returned by   *)
(*   the contiguous extracts (b = 0: nullptr); oob / slot0 only set by the transcription*)
Base(S) == [ret |-> 0, v |-> S.v, mem |-> S.mem, ff |-> S.ff, bf |-> S.bf, nb |-> S.nb, nx |-> S.nx,
            dv |-> <<>>, ptr |-> <<0, 0>>, oob |-> FALSE, slot0 |-> FALSE]

(* =============================== Part 1: transcription ============================= *)

(* iovector_view::shrink_to (iovector.cpp:31) *)
RECURSIVE ShrinkLoop(_, _, _, _)
ShrinkLoop(v, i, size, size0) ==
  IF i > Len(v) THEN [ret |-> size0 - size, v |-> v]
  ELSE IF size <= v[i].n THEN [ret |-> size0, v |-> SubSeq(v, 1, i - 1) \o <<El(v[i].b, v[i].o, size)>>]
  ELSE ShrinkLoop(v, i + 1, size - v[i].n, size0)
ShrinkV(v, size) == IF size = 0 THEN [ret |-> 0, v |-> <<>>] ELSE ShrinkLoop(v, 1, size, size)

(* iovector_view::shrink_less_than (iovector.cpp:50) -- specified as the code behaves *)
RECURSIVE ShrinkLTLoop(_, _, _)
ShrinkLTLoop(v, i, size) ==
  IF i > Len(v) THEN [ret |-> 0, v |-> v]
  ELSE IF size <= v[i].n THEN [ret |-> v[i].n - size, v |-> SubSeq(v, 1, i)]
  ELSE ShrinkLTLoop(v, i + 1, size - v[i].n)
ShrinkLTV(v, size) ==
  IF size = 0 THEN (IF v # <<>> THEN [ret |-> v[1].n, v |-> <<>>] ELSE [ret |-> 0, v |-> v])
  ELSE ShrinkLTLoop(v, 1, size)

(* ioview::do_extract_front (iovector.cpp:132): pcs = the (ptr, size) pairs handed to the callback; *)
(* the callback of the sub-vector form refuses (-1) when N pieces are already stored                 *)
RECURSIVE DoXF(_, _, _, _)
DoXF(v, bytes, pcs, N) ==
  IF v = <<>> THEN [v |-> v, left |-> bytes, pcs |-> pcs, fail |-> FALSE]
  ELSE LET e == v[1] IN
       IF Len(pcs) = N THEN [v |-> v, left |-> bytes, pcs |-> pcs, fail |-> TRUE]
       ELSE IF bytes <= e.n
            THEN LET n2 == e.n - bytes IN
                 [v |-> IF n2 = 0 THEN Tail(v) ELSE <<El(e.b, e.o + bytes, n2)>> \o Tail(v),
                  left |-> 0, pcs |-> Append(pcs, El(e.b, e.o, bytes)), fail |-> FALSE]
            ELSE DoXF(Tail(v), bytes - e.n, Append(pcs, e), N)
XFront(v, bytes, N) == IF bytes = 0 THEN [v |-> v, left |-> 0, pcs |-> <<>>, fail |-> FALSE] ELSE DoXF(v, bytes, <<>>, N)

(* ioview::do_extract_back (iovector.cpp:166) *)
RECURSIVE DoXB(_, _, _, _)
DoXB(v, bytes, pcs, N) ==
  IF v = <<>> THEN [v |-> v, left |-> bytes, pcs |-> pcs, fail |-> FALSE]
  ELSE LET e == v[Len(v)]  front == SubSeq(v, 1, Len(v) - 1) IN
       IF Len(pcs) = N THEN [v |-> v, left |-> bytes, pcs |-> pcs, fail |-> TRUE]
       ELSE IF bytes <= e.n
            THEN LET n2 == e.n - bytes IN
                 [v |-> IF n2 = 0 THEN front ELSE Append(front, El(e.b, e.o, n2)),
                  left |-> 0, pcs |-> Append(pcs, El(e.b, e.o + e.n - bytes, bytes)), fail |-> FALSE]
            ELSE DoXB(front, bytes - e.n, Append(pcs, e), N)
XBack(v, bytes, N) == IF bytes = 0 THEN [v |-> v, left |-> 0, pcs |-> <<>>, fail |-> FALSE] ELSE DoXB(v, bytes, <<>>, N)

(* copy-out callbacks: extract_front(bytes, buf) advances buf after each piece (iovector.cpp:205);  *)
(* extract_back(bytes, buf) starts at buf + bytes and moves down before each piece (iovector.cpp:234) *)
RECURSIVE CopyF(_, _, _, _, _)
CopyF(mem, D, pcs, pos, oob) ==
  IF pcs = <<>> THEN [mem |-> mem, oob |-> oob]
  ELSE LET p == pcs[1]  w == MemCpy(mem, D, pos, p.b, p.o, p.n) IN CopyF(w.mem, D, Tail(pcs), pos + p.n, oob \/ w.oob)
RECURSIVE CopyB(_, _, _, _, _)
CopyB(mem, D, pcs, pos, oob) ==
  IF pcs = <<>> THEN [mem |-> mem, oob |-> oob]
  ELSE LET p == pcs[1]  pos2 == pos - p.n  w == MemCpy(mem, D, pos2, p.b, p.o, p.n) IN CopyB(w.mem, D, Tail(pcs), pos2, oob \/ w.oob)

(* iovector_view::slice (iovector.cpp:74) *)
RECURSIVE SkipTo(_, _, _, _)
SkipTo(v, i, pos, offset) ==
  IF i > Len(v) \/ pos + v[i].n > offset THEN [i |-> i, pos |-> pos] ELSE SkipTo(v, i + 1, pos + v[i].n, offset)
RECURSIVE SliceRest(_, _, _, _, _, _)
SliceRest(v, i, count, dv, ret, N) ==
  IF i > Len(v) \/ Len(dv) >= N THEN [ret |-> ret, dv |-> dv]
  ELSE IF count <= v[i].n THEN [ret |-> ret + count, dv |-> Append(dv, El(v[i].b, v[i].o, count))]
  ELSE SliceRest(v, i + 1, count - v[i].n, Append(dv, v[i]), ret + v[i].n, N)
SliceV(v, count, offset, N, dv0) ==
  IF N = 0 THEN [ret |-> -1, dv |-> dv0]
  ELSE IF count = 0 THEN [ret |-> 0, dv |-> <<>>]
  ELSE LET sk == SkipTo(v, 1, 0, offset) IN
       IF sk.i > Len(v) THEN [ret |-> 0, dv |-> <<>>]
       ELSE LET e == v[sk.i]  d == offset - sk.pos  p == El(e.b, e.o + d, e.n - d) IN
            IF count <= p.n THEN [ret |-> count, dv |-> <<El(p.b, p.o, count)>>]
            ELSE SliceRest(v, sk.i + 1, count - p.n, <<p>>, p.n, N)

(* _copy_pipe_iov (iovector.cpp:302).  iov_iterator::operator+= and src_extractor::operator+= act   *)
(* alike on the sequence of remaining elements: advance inside the front element, or drop it.       *)
Adv(x, n) == IF n < x[1].n THEN <<El(x[1].b, x[1].o + n, x[1].n - n)>> \o Tail(x) ELSE Tail(x)
RECURSIVE CopyLoop(_, _, _, _, _)
CopyLoop(d, s, size, mem, oob) ==
  IF size = 0 \/ d = <<>> \/ s = <<>> THEN [d |-> d, s |-> s, left |-> size, mem |-> mem, oob |-> oob]
  ELSE LET df == d[1]  sf == s[1]  step == Min3(size, df.n, sf.n)
           w == MemCpy(mem, df.b, df.o, sf.b, sf.o, step)
       IN CopyLoop(Adv(d, step), Adv(s, step), size - step, w.mem, oob \/ w.oob)

(* IOVAllocation_::do_allocate (iovector.h:822) with the harness allocator: blocks of at most amax bytes *)
Alloc(P, S, mn, mx, aux) ==
  IF P.nb >= S.cap \/ mn > S.amax \/ mx < mn THEN [ok |-> FALSE, id |-> 0, len |-> 0, P |-> P]
  ELSE LET len == Min2(mx, S.amax)  id == P.nx IN
       [ok |-> TRUE, id |-> id, len |-> len,
        P |-> [P EXCEPT !.nx = id + 1, !.nb = @ + 1, !.mem = @ @@ (id :> IF aux THEN <<>> ELSE Fresh(id, len))]]

(* iovector::push_back(bytes) + push_back_more, push_front(bytes) + push_front_more (iovector.h:363,389; .cpp:339,357) *)
RECURSIVE PushMore(_, _, _, _, _)
PushMore(P, S, bytes, bytes0, back) ==
  IF bytes = 0 THEN [P |-> P, done |-> bytes0]
  ELSE IF (IF back THEN P.bf ELSE P.ff) = 0 THEN [P |-> P, done |-> bytes0 - bytes]
  ELSE LET a == Alloc(P, S, 1, bytes, FALSE) IN
       IF ~a.ok THEN [P |-> P, done |-> bytes0 - bytes]
       ELSE LET e == El(a.id, 0, a.len)
                P2 == IF back THEN [a.P EXCEPT !.v = Append(@, e), !.bf = @ - 1]
                              ELSE [a.P EXCEPT !.v = <<e>> \o @, !.ff = @ - 1]
            IN PushMore(P2, S, bytes - a.len, bytes0, back)
PushAlloc(P, S, bytes, back) ==
  IF (IF back THEN P.bf ELSE P.ff) = 0 THEN [P |-> P, done |-> 0]
  ELSE LET a == Alloc(P, S, 1, bytes, FALSE) IN
       IF ~a.ok THEN [P |-> P, done |-> 0]
       ELSE LET e == El(a.id, 0, a.len)
                P2 == IF back THEN [a.P EXCEPT !.v = Append(@, e), !.bf = @ - 1]
                              ELSE [a.P EXCEPT !.v = <<e>> \o @, !.ff = @ - 1]
            IN IF a.len = bytes THEN [P |-> P2, done |-> bytes]
               ELSE LET m == PushMore(P2, S, bytes - a.len, bytes - a.len, back) IN [P |-> m.P, done |-> a.len + m.done]

(* the operation record: [op, n, off, N, D, w, wk, el]                                                      *)
(*   n: bytes/size/count; off: slice offset; N: iovec slots of the destination view (0: empty view);        *)
(*   D: id of the flat buffer operand; w: the other vector (elements) / the N slots; wk: "v" view, "o"      *)
(*   iovector; el: element pushed                                                                            *)
Popped(S, v2) == Len(S.v) - Len(v2)
WithFront(S, P, v2) == [P EXCEPT !.v = v2, !.ff = IF S.own THEN @ + Popped(S, v2) ELSE @]
WithBack(S, P, v2)  == [P EXCEPT !.v = v2, !.bf = IF S.own THEN @ + Popped(S, v2) ELSE @]
Ret(r, n) == IF r.fail THEN -1 ELSE n - r.left

ImplShrinkTo(S, n) ==
  LET r == ShrinkV(S.v, n) IN
  IF S.own /\ r.ret # n THEN [Base(S) EXCEPT !.ret = r.ret]          \* iovector.h:438
  ELSE [WithBack(S, Base(S), r.v) EXCEPT !.ret = r.ret]

\* sub-vector destinations: a view with N slots (N = 0 on an iovector: the slots are malloc'ed, iovector.h:486),
\* or another iovector (resize(iovcnt()), iovector.h:508)
SubVec(S, o, front) ==
  LET go(P0, N) == LET r == IF front THEN XFront(S.v, o.n, N) ELSE XBack(S.v, o.n, N)
                       P1 == IF front THEN WithFront(S, P0, r.v) ELSE WithBack(S, P0, r.v)
                   IN [P1 EXCEPT !.ret = Ret(r, o.n), !.dv = IF front THEN r.pcs ELSE Reverse(r.pcs)]
  IN IF ~S.own THEN go(Base(S), o.N)
     ELSE IF o.n = 0 THEN [Base(S) EXCEPT !.dv = o.w]
     ELSE IF o.wk = "o" THEN go(Base(S), Len(S.v))
     ELSE IF o.N > 0 THEN go(Base(S), o.N)
     ELSE LET a == Alloc(Base(S), S, SLOT * Len(S.v), SLOT * Len(S.v), TRUE) IN
          IF ~a.ok THEN [Base(S) EXCEPT !.ret = -1] ELSE go(a.P, Len(S.v))

(* extract_front_continuous / extract_back_continuous: view (iovector.h:120,149) and iovector (iovector.h:529,623) *)
ContV(v, n, front) ==
  IF v = <<>> THEN [ok |-> FALSE, v |-> v, ptr |-> <<0, 0>>]
  ELSE LET e == IF front THEN v[1] ELSE v[Len(v)] IN
       IF e.n < n THEN [ok |-> FALSE, v |-> v, ptr |-> <<0, 0>>]
       ELSE LET n2 == e.n - n IN
            IF front THEN [ok |-> TRUE, ptr |-> <<e.b, e.o>>,
                           v |-> IF n2 = 0 THEN Tail(v) ELSE <<El(e.b, e.o + n, n2)>> \o Tail(v)]
            ELSE [ok |-> TRUE, ptr |-> <<e.b, e.o + n2>>,
                  v |-> IF n2 = 0 THEN SubSeq(v, 1, Len(v) - 1) ELSE Append(SubSeq(v, 1, Len(v) - 1), El(e.b, e.o, n2))]
ImplCont(S, n, front) ==
  LET c == ContV(S.v, n, front)
      upd(P, v2) == IF front THEN WithFront(S, P, v2) ELSE WithBack(S, P, v2) IN
  IF c.ok THEN [upd(Base(S), c.v) EXCEPT !.ptr = c.ptr]
  ELSE IF ~S.own \/ Sum(S.v) < n THEN Base(S)
  ELSE LET a == Alloc(Base(S), S, n, n, FALSE) IN
       IF ~a.ok THEN Base(S)
       ELSE LET r == IF front THEN XFront(S.v, n, NOCAP) ELSE XBack(S.v, n, NOCAP)
                w == IF front THEN CopyF(a.P.mem, a.id, r.pcs, 0, FALSE) ELSE CopyB(a.P.mem, a.id, r.pcs, n, FALSE)
            IN [upd(a.P, r.v) EXCEPT !.mem = w.mem, !.oob = w.oob, !.ptr = <<a.id, 0>>]

(* memcpy_iov / pipe_iov (iovector.cpp:316,331,335).  An iov_iterator reads iov[0] when it is constructed  *)
(* (iovector.cpp:277) - for an empty iovector_view that slot is not part of the view (slot0).              *)
ImplCopy(S, o, d, s, dIsView, sIsView, mode) ==      \* mode: "to" | "from" | "pto" | "pfrom" (seen from *this)
  LET r == CopyLoop(d, s, o.n, S.mem, FALSE)
      extract == mode \in {"pto", "pfrom"}
      P0 == [Base(S) EXCEPT !.ret = o.n - r.left, !.mem = r.mem, !.oob = r.oob, !.dv = o.w,
                            !.slot0 = FALSE]
  IN IF mode = "pto" THEN WithFront(S, P0, r.s)
     ELSE IF mode = "pfrom" THEN [P0 EXCEPT !.dv = r.s]
     ELSE P0

Impl(S, o) ==
  LET B == Base(S)  selfView == ~S.own  wView == o.wk = "v"  buf(len) == <<El(o.D, 0, len)>> IN
  CASE o.op = "sum" -> [B EXCEPT !.ret = Sum(S.v)]
    [] o.op = "shrink" -> ImplShrinkTo(S, o.n)
    [] o.op = "shrinklt" -> LET r == ShrinkLTV(S.v, o.n) IN [B EXCEPT !.ret = r.ret, !.v = r.v]
    [] o.op = "xf" -> LET r == XFront(S.v, o.n, NOCAP) IN [WithFront(S, B, r.v) EXCEPT !.ret = o.n - r.left]
    [] o.op = "xb" -> LET r == XBack(S.v, o.n, NOCAP) IN [WithBack(S, B, r.v) EXCEPT !.ret = o.n - r.left]
    [] o.op = "xfb" -> LET r == XFront(S.v, o.n, NOCAP)  w == CopyF(S.mem, o.D, r.pcs, 0, FALSE) IN
                       [WithFront(S, B, r.v) EXCEPT !.ret = o.n - r.left, !.mem = w.mem, !.oob = w.oob]
    [] o.op = "xbb" -> LET r == XBack(S.v, o.n, NOCAP)  w == CopyB(S.mem, o.D, r.pcs, o.n, FALSE) IN
                       [WithBack(S, B, r.v) EXCEPT !.ret = o.n - r.left, !.mem = w.mem, !.oob = w.oob]
    [] o.op = "xfv" -> SubVec(S, o, TRUE)
    [] o.op = "xbv" -> SubVec(S, o, FALSE)
    [] o.op = "xfc" -> ImplCont(S, o.n, TRUE)
    [] o.op = "xbc" -> ImplCont(S, o.n, FALSE)
    [] o.op = "slice" ->
         IF ~S.own THEN LET r == SliceV(S.v, o.n, o.off, o.N, o.w) IN [B EXCEPT !.ret = r.ret, !.dv = r.dv]
         ELSE IF o.n = 0 \/ S.v = <<>> THEN [B EXCEPT !.dv = o.w]                                           \* iovector.h:753
         ELSE IF o.N > 0 THEN LET r == SliceV(S.v, o.n, o.off, o.N, o.w) IN [B EXCEPT !.ret = r.ret, !.dv = r.dv]
         ELSE LET a == Alloc(B, S, SLOT * Len(S.v), SLOT * Len(S.v), TRUE) IN
              IF ~a.ok THEN B
              ELSE LET r == SliceV(S.v, o.n, o.off, Len(S.v), <<>>) IN [a.P EXCEPT !.ret = r.ret, !.dv = r.dv]
    [] o.op = "mtob"   -> ImplCopy(S, o, buf(o.n), S.v, FALSE, selfView, "to")
    [] o.op = "mfromb" -> ImplCopy(S, o, S.v, buf(o.n), selfView, FALSE, "from")
    [] o.op = "mtov"   -> ImplCopy(S, o, o.w, S.v, wView, selfView, "to")
    [] o.op = "mfromv" -> ImplCopy(S, o, S.v, o.w, selfView, wView, "from")
    [] o.op = "ptob"   -> ImplCopy(S, o, buf(o.n), S.v, FALSE, FALSE, "pto")
    [] o.op = "ptov"   -> ImplCopy(S, o, o.w, S.v, wView, FALSE, "pto")
    [] o.op = "pfromv" -> ImplCopy(S, o, S.v, o.w, selfView, FALSE, "pfrom")
    [] o.op = "pb" -> IF S.bf = 0 THEN B ELSE [B EXCEPT !.ret = o.el.n, !.v = Append(@, o.el), !.bf = @ - 1]
    [] o.op = "pf" -> IF S.ff = 0 THEN B ELSE [B EXCEPT !.ret = o.el.n, !.v = <<o.el>> \o @, !.ff = @ - 1]
    [] o.op = "popf" -> IF S.v = <<>> THEN B ELSE [B EXCEPT !.ret = S.v[1].n, !.v = Tail(@), !.ff = @ + 1]
    [] o.op = "popb" -> IF S.v = <<>> THEN B ELSE [B EXCEPT !.ret = S.v[Len(S.v)].n, !.v = SubSeq(@, 1, Len(@) - 1), !.bf = @ + 1]
    [] o.op = "pba" -> LET r == PushAlloc(B, S, o.n, TRUE) IN [r.P EXCEPT !.ret = r.done]
    [] o.op = "pfa" -> LET r == PushAlloc(B, S, o.n, FALSE) IN [r.P EXCEPT !.ret = r.done]
    [] o.op = "trunc" ->                                                                       \* iovector.h:446
         IF o.n = Sum(S.v) THEN [B EXCEPT !.ret = o.n]
         ELSE LET P1 == ImplShrinkTo(S, o.n) IN
              IF P1.ret = o.n THEN P1
              ELSE LET r == PushAlloc(P1, S, o.n - P1.ret, TRUE) IN [r.P EXCEPT !.ret = P1.ret + r.done]

(* =============================== Part 2: reference ================================= *)
(* operations on the flat byte sequence F (a sequence of byte ids) *)
RefSum(F) == Len(F)
RefShrinkTo(F, n) == [ret |-> Min2(n, Len(F)), rest |-> Take(F, n)]
RefExtractFront(F, n) == [ret |-> Min2(n, Len(F)), out |-> Take(F, n), rest |-> Drop(F, n)]
RefExtractBack(F, n) == [ret |-> Min2(n, Len(F)), out |-> TakeLast(F, n), rest |-> DropLast(F, n)]
RefSlice(F, count, off) == LET r == Min2(count, Max2(Len(F) - off, 0)) IN [ret |-> r, out |-> SubSeq(F, off + 1, off + r)]
RefCopy(Fd, Fs, size) == LET r == Min3(size, Len(Fd), Len(Fs)) IN [ret |-> r, to |-> Take(Fd, r), from |-> Take(Fs, r)]
\* number of source elements an extraction of n bytes spans (a sub-vector destination needs one slot per element)
RECURSIVE SpanF(_, _)
SpanF(v, n) == IF n = 0 \/ v = <<>> THEN 0 ELSE IF n <= v[1].n THEN 1 ELSE 1 + SpanF(Tail(v), n - v[1].n)
SpanB(v, n) == SpanF(Reverse(v), n)

IsSeqNoDup(s) == \A i, j \in 1..Len(s) : i # j => s[i] # s[j]
\* mem of P agrees with `expected` on every buffer that existed before the call
MemIs(S, P, expected) == \A id \in DOMAIN S.mem : id \in DOMAIN P.mem /\ P.mem[id] = expected[id]
AllocCouldRefuse(S, mn) == S.nb >= S.cap \/ mn > S.amax

Judge(S, o, P) ==
  LET F == Flat(S.v)  T == Len(F)  F2 == Flat(P.v)  W == Flat(o.w)  DV == Flat(P.dv)
      Dbuf == [j \in 1..o.n |-> <<o.D, j>>]
      P_(c, s) == IF c THEN {} ELSE {s}
      same == P_(F2 = F, "vector changed") \cup P_(MemIs(S, P, S.mem), "memory changed")
      nomem == P_(MemIs(S, P, S.mem), "memory changed")
      fresh(R) == /\ \A k \in 1..Len(R) : R[k][1] >= S.nx /\ R[k][1] \in DOMAIN P.mem /\ R[k][2] >= 1 /\ R[k][2] <= Len(P.mem[R[k][1]])
                  /\ IsSeqNoDup(R)
      copyJ(Fd, Fs, size) == LET c == RefCopy(Fd, Fs, size) IN
            P_(P.ret = c.ret, "wrong count")
       \cup P_(MemIs(S, P, WriteAddrs(S.mem, c.to, Content(S.mem, c.from))), "destination bytes differ from the flat copy / bytes outside it changed")
      subvec(x, span, front) ==
            IF P.ret = -1
            THEN P_((S.own /\ o.wk = "v" /\ o.N = 0 /\ AllocCouldRefuse(S, SLOT * Len(S.v)) /\ F2 = F) \/
                    ((IF S.own /\ o.N = 0 THEN Len(S.v) ELSE o.N) < span), "-1 although the destination has enough slots")
                 \cup P_((IF front THEN DV \o F2 ELSE F2 \o DV) = F, "bytes lost on -1") \cup nomem
            ELSE P_(P.ret = x.ret, "wrong count") \cup P_(DV = x.out, "sub-vector is not the extracted bytes")
                 \cup P_(F2 = x.rest, "vector does not denote the remaining bytes") \cup nomem
      cont(x, front) ==
            IF P.ptr[1] = 0
            THEN same \cup P_((IF S.own THEN T < o.n \/ AllocCouldRefuse(S, o.n)
                               ELSE S.v = <<>> \/ (IF front THEN S.v[1].n ELSE S.v[Len(S.v)].n) < o.n), "nullptr although the bytes are available")
            ELSE LET R == [j \in 1..o.n |-> <<P.ptr[1], P.ptr[2] + j>>] IN
                 P_(T >= o.n, "pointer although fewer bytes than requested")
            \cup P_(F2 = x.rest, "vector does not denote the remaining bytes")
            \cup (IF R = x.out THEN nomem
                  ELSE P_(fresh(R) /\ Content(P.mem, R) = Content(S.mem, x.out), "returned block is not the extracted bytes") \cup nomem)
      grow(want, front) ==   \* push_back(bytes)/push_front(bytes)/truncate beyond the end: fresh bytes are added
            LET k == Len(F2) - T  R == IF front THEN Take(F2, k) ELSE TakeLast(F2, k) IN
            P_(k >= 0 /\ (IF front THEN Drop(F2, k) ELSE DropLast(F2, k)) = F, "existing bytes not preserved")
       \cup P_(k <= want /\ (k >= 0 => fresh(R)), "added bytes are not fresh allocations of the requested size")
       \cup P_(k = want \/ (IF front THEN P.ff ELSE P.bf) = 0 \/ P.nb >= S.cap \/ (k = 0 /\ (IF front THEN S.ff ELSE S.bf) = 0),
               "fewer bytes added although slots and allocator were available")
       \cup nomem
  IN
  IF P.oob THEN {"access outside the operand buffers"}
  ELSE IF \E k \in 1..Len(P.v) : ~ValidEl(P.mem, P.v[k]) THEN {"vector element outside the operand buffers"}
  ELSE IF \E k \in 1..Len(P.dv) : ~ValidEl(P.mem, P.dv[k]) THEN {"destination element outside the operand buffers"}
  ELSE P_(~P.slot0, "reads iov[0] of an empty iovector_view") \cup
  CASE o.op = "sum" -> P_(P.ret = RefSum(F), "wrong sum") \cup same
    [] o.op = "shrink" -> LET x == RefShrinkTo(F, o.n) IN
          P_(P.ret = x.ret, "wrong count") \cup P_(F2 = x.rest, "vector does not denote the first bytes") \cup nomem
    [] o.op = "shrinklt" -> LET r == ShrinkLTV(S.v, o.n) IN   \* consistency with the definition only
          P_(P.ret = r.ret /\ F2 = Flat(r.v), "differs from the definition of shrink_less_than") \cup nomem
    [] o.op \in {"xf", "xb"} -> LET x == IF o.op = "xf" THEN RefExtractFront(F, o.n) ELSE RefExtractBack(F, o.n) IN
          P_(P.ret = x.ret, "wrong count") \cup P_(F2 = x.rest, "vector does not denote the remaining bytes") \cup nomem
    [] o.op \in {"xfb", "xbb"} -> LET x == IF o.op = "xfb" THEN RefExtractFront(F, o.n) ELSE RefExtractBack(F, o.n) IN
          P_(P.ret = x.ret, "wrong count") \cup P_(F2 = x.rest, "vector does not denote the remaining bytes")
          \* extract_front(bytes, buf) fills buf[0..ret); extract_back(bytes, buf) fills the END of the `bytes`-sized buffer,
          \* buf[bytes-ret..bytes) -- that placement is pinned by the repository's own test (common/test/test.cpp
          \* iovector_view.test3) and is therefore taken as the operation's definition, see DESIGN.md (F7).
          \cup P_(MemIs(S, P, WriteAddrs(S.mem, IF o.op = "xfb" THEN Take(Dbuf, x.ret) ELSE Take(Drop(Dbuf, o.n - x.ret), x.ret),
                                          Content(S.mem, x.out))),
                  "buf does not hold the extracted bytes where the operation puts them / bytes outside changed")
    [] o.op = "xfv" -> subvec(RefExtractFront(F, o.n), SpanF(S.v, o.n), TRUE)
    [] o.op = "xbv" -> subvec(RefExtractBack(F, o.n), SpanB(S.v, o.n), FALSE)
    [] o.op = "xfc" -> cont(RefExtractFront(F, o.n), TRUE)
    [] o.op = "xbc" -> cont(RefExtractBack(F, o.n), FALSE)
    [] o.op = "slice" -> LET x == RefSlice(F, o.n, o.off)  N == IF S.own /\ o.N = 0 THEN Len(S.v) ELSE o.N IN
          same \cup
          (IF P.ret = -1 THEN P_(~S.own /\ o.N = 0, "-1 although the request can be truncated to the content")
           ELSE P_(P.ret >= 0 /\ P.ret <= x.ret /\ DV = SubSeq(F, o.off + 1, o.off + P.ret), "slice is not the requested bytes")
                \cup P_(P.ret = x.ret \/ (N > 0 /\ Len(P.dv) >= N) \/ (S.own /\ o.N = 0 /\ AllocCouldRefuse(S, SLOT * Len(S.v))),
                        "short slice although the destination has room"))
    [] o.op = "mtob"   -> copyJ(Dbuf, F, o.n) \cup P_(F2 = F, "vector changed")
    [] o.op = "mfromb" -> copyJ(F, Dbuf, o.n) \cup P_(F2 = F, "vector changed")
    [] o.op = "mtov"   -> copyJ(W, F, o.n) \cup P_(F2 = F, "vector changed") \cup P_(DV = W, "other vector changed")
    [] o.op = "mfromv" -> copyJ(F, W, o.n) \cup P_(F2 = F, "vector changed") \cup P_(DV = W, "other vector changed")
    [] o.op = "ptob"   -> copyJ(Dbuf, F, o.n) \cup P_(F2 = Drop(F, RefCopy(Dbuf, F, o.n).ret), "vector does not denote the remaining bytes")
    [] o.op = "ptov"   -> copyJ(W, F, o.n) \cup P_(F2 = Drop(F, RefCopy(W, F, o.n).ret), "vector does not denote the remaining bytes")
                          \cup P_(DV = W, "other vector changed")
    [] o.op = "pfromv" -> copyJ(F, W, o.n) \cup P_(F2 = F, "vector changed")
                          \cup P_(DV = Drop(W, RefCopy(F, W, o.n).ret), "source does not denote its remaining bytes")
    [] o.op = "pb" -> nomem \cup (IF S.bf > 0 THEN P_(P.ret = o.el.n /\ F2 = F \o Addrs(o.el), "push_back") ELSE P_(P.ret = 0 /\ F2 = F, "push_back without a free slot"))
    [] o.op = "pf" -> nomem \cup (IF S.ff > 0 THEN P_(P.ret = o.el.n /\ F2 = Addrs(o.el) \o F, "push_front") ELSE P_(P.ret = 0 /\ F2 = F, "push_front without a free slot"))
    [] o.op = "popf" -> nomem \cup (IF S.v = <<>> THEN P_(P.ret = 0 /\ F2 = F, "pop_front of an empty vector")
                                    ELSE P_(P.ret = S.v[1].n /\ F2 = Drop(F, S.v[1].n), "pop_front"))
    [] o.op = "popb" -> nomem \cup (IF S.v = <<>> THEN P_(P.ret = 0 /\ F2 = F, "pop_back of an empty vector")
                                    ELSE P_(P.ret = S.v[Len(S.v)].n /\ F2 = DropLast(F, S.v[Len(S.v)].n), "pop_back"))
    [] o.op = "pba" -> P_(P.ret = Len(F2) - T, "wrong count") \cup grow(o.n, FALSE)
    [] o.op = "pfa" -> P_(P.ret = Len(F2) - T, "wrong count") \cup grow(o.n, TRUE)
    [] o.op = "trunc" ->
          IF o.n <= T THEN P_(P.ret = o.n, "wrong count") \cup P_(F2 = Take(F, o.n), "vector does not denote the first bytes") \cup nomem
          ELSE P_(P.ret = Len(F2), "wrong count") \cup grow(o.n - T, FALSE)

\* the slots of an owning vector are conserved (only meaningful for iovector)
SlotsOK(S, P) == ~S.own \/ (P.ff >= 0 /\ P.bf >= 0 /\ P.ff + Len(P.v) + P.bf = S.ff + Len(S.v) + S.bf)
=============================================================================
