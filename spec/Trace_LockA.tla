---- MODULE Trace_LockA ----
(* Tier-A trace validation for the lock family (C01): photon mutex (plain, retries 0, contending),      *)
(* recursive_mutex, spinlock, ticket_spinlock, qspinlock.                                                  *)
(* The recorded history (harness/h_sync.cpp: Inv / Resp per API call, CsEnter / CsExit inside the guarded  *)
(* region, Interrupt, Quiesce) must be a behaviour of the ABSTRACT lock below: every call takes effect     *)
(* atomically at one instant (silent Lin step) between its Inv and its Resp.                               *)
(*   - lock()/try_lock() returns 0  <=>  the caller became the owner at that instant (the lock was free,   *)
(*     or, recursive variant, already owned by the caller);                                                *)
(*   - a failed lock() changes nothing; it may fail only by timeout (finite timeout given, errno ETIMEDOUT)*)
(*     or by interruption (a thread_interrupt() was issued to the caller, errno as given by the interrupter)*)
(*   - CsEnter(t) only while t is the owner (mutual exclusion of the guarded region);                      *)
(*   - at quiescence every call has returned, nobody is inside, and locked() agrees with the abstract owner*)
(* A "Hang" event (a thread still blocked when every program had ended) has no action: the trace is        *)
(* rejected there (the mutex was left stuck / a hand-off was lost).                                        *)
EXTENDS Naturals, Integers, Sequences, FiniteSets, TLC, Json, IOUtils
Tr == ndJsonDeserialize(IOEnv.TRACE)
MaxT == 8
T == 1..MaxT
ETIMEDOUT == 110
EINTR == 4
NoOp == [op |-> "none", lin |-> FALSE, res |-> 0, to |-> 0]

VARIABLES l, owner, depth, pend, intr, incs, rec
vars == <<l, owner, depth, pend, intr, incs, rec>>

Fresh == /\ owner = 0 /\ depth = 0 /\ pend = [t \in T |-> NoOp] /\ intr = {} /\ incs = {} /\ rec = FALSE
Init == l = 1 /\ Fresh /\ TLCSet(1, 0)

Ev(e) == l <= Len(Tr) /\ Tr[l].e = e /\ l' = l + 1
R == Tr[l]

Reset == /\ Ev("Reset")
         /\ owner' = 0 /\ depth' = 0 /\ pend' = [t \in T |-> NoOp] /\ intr' = {} /\ incs' = {}
         /\ rec' = R.rec

Inv == /\ Ev("Inv")
       /\ pend[R.t].op = "none"
       /\ pend' = [pend EXCEPT ![R.t] = [op |-> R.op, lin |-> FALSE, res |-> 0,
                                          to |-> IF R.op = "lock" THEN R.to ELSE 0]]
       /\ UNCHANGED <<owner, depth, intr, incs, rec>>

(* ---- silent linearization steps ---- *)
LinAcquire(t) ==      \* lock / try_lock succeeds
  /\ pend[t].op \in {"lock", "try_lock"} /\ ~pend[t].lin
  /\ \/ owner = 0 /\ owner' = t /\ depth' = 1
     \/ rec /\ owner = t /\ depth' = depth + 1 /\ UNCHANGED owner
  /\ pend' = [pend EXCEPT ![t].lin = TRUE, ![t].res = 0]
  /\ UNCHANGED <<l, intr, incs, rec>>
LinFail(t) ==         \* lock / try_lock fails: no effect on the lock
  /\ pend[t].op \in {"lock", "try_lock"} /\ ~pend[t].lin
  /\ pend' = [pend EXCEPT ![t].lin = TRUE, ![t].res = -1]
  /\ UNCHANGED <<l, owner, depth, intr, incs, rec>>
LinRelease(t) ==
  /\ pend[t].op = "unlock" /\ ~pend[t].lin
  /\ owner = t /\ t \notin incs
  /\ IF depth > 1 THEN depth' = depth - 1 /\ UNCHANGED owner ELSE depth' = 0 /\ owner' = 0
  /\ pend' = [pend EXCEPT ![t].lin = TRUE, ![t].res = 0]
  /\ UNCHANGED <<l, intr, incs, rec>>

Resp == /\ Ev("Resp")
        /\ LET t == R.t  p == pend[t] IN
           /\ p.op = R.op
           /\ IF "skip" \in DOMAIN R THEN TRUE     \* operation not provided by this lock kind (nothing was called)
              ELSE /\ p.lin /\ p.res = R.r
                   /\ (R.op = "lock" /\ R.r # 0) =>
                         \/ R.en = ETIMEDOUT /\ p.to # 2               \* only a finite timeout can expire
                         \/ R.en # ETIMEDOUT /\ t \in intr             \* only an interrupted caller can be interrupted
           /\ pend' = [pend EXCEPT ![t] = NoOp]
        /\ UNCHANGED <<owner, depth, intr, incs, rec>>

CsEnter == /\ Ev("CsEnter") /\ owner = R.t /\ pend[R.t].op = "none" /\ incs = {}
           /\ incs' = {R.t} /\ UNCHANGED <<owner, depth, pend, intr, rec>>
CsExit == /\ Ev("CsExit") /\ R.t \in incs /\ owner = R.t
          /\ incs' = incs \ {R.t} /\ UNCHANGED <<owner, depth, pend, intr, rec>>
Interrupt == /\ Ev("Interrupt") /\ intr' = intr \cup {R.t} /\ UNCHANGED <<owner, depth, pend, incs, rec>>
Quiesce == /\ Ev("Quiesce")
           /\ \A t \in T : pend[t].op = "none"
           /\ incs = {} /\ owner = 0
           /\ R.locked \in {-1, 0}
           /\ UNCHANGED <<owner, depth, pend, intr, incs, rec>>

Next == \/ Reset \/ Inv \/ Resp \/ CsEnter \/ CsExit \/ Interrupt \/ Quiesce
        \/ \E t \in T : LinAcquire(t) \/ LinFail(t) \/ LinRelease(t)
Spec == Init /\ [][Next]_vars

MutualExclusion == Cardinality(incs) <= 1 /\ (incs # {} => incs = {owner})
NotAccepted == l <= Len(Tr)
\* progress register: highest trace position reached on any path (for diagnosing a rejection)
Progress == TLCSet(1, IF TLCGet(1) < l THEN l ELSE TLCGet(1))
Post == PrintT(<<"MAXL", TLCGet(1), Len(Tr)>>)
====
