SPECIFICATION Spec
CONSTANTS
  K = 2
  WProgs <- W21
  RProgs <- R21
  RawW = FALSE
  RawR = FALSE
  RawTotal = 0
  Tmos <- T1
  MaxT = 2
  Spurious = TRUE
  Interrupts = TRUE
  Bug = "none"
INVARIANTS ViewIsFunctionOfMoved StreamExact ReadWriteComplete RecvSendBounds NoHangPastTimeout WaitsOnlyForData
CHECK_DEADLOCK FALSE
