SPECIFICATION Spec
CONSTANTS
  K = 2
  WProgs <- W31
  RProgs <- R31
  RawW = FALSE
  RawR = FALSE
  RawTotal = 0
  Tmos <- T012
  MaxT = 3
  Spurious = TRUE
  Interrupts = TRUE
  Bug = "none"
INVARIANTS ViewIsFunctionOfMoved StreamExact ReadWriteComplete RecvSendBounds NoHangPastTimeout WaitsOnlyForData
CHECK_DEADLOCK FALSE
