---- MODULE Trace_LifeA ----
(* Tier-A trace validation of the thread lifecycle (C05) on recorded executions (harness/h_life.cpp).                   *)
(*   every created thread enters its entry function exactly once (Enter after CreateInv, never twice) and leaves once;  *)
(*   it executes on at most one vCPU at a time: compute segments Seg..SegEnd of one thread never overlap, and a segment *)
(*   ends on the vCPU it began on;                                                                                       *)
(*   thread_join() returns once, after Leave, with the entry function's value;                                           *)
(*   the thread's stack is released exactly once, only after Leave (and for a joinable thread not before thread_join()   *)
(*   was called for it);                                                                                                 *)
(*   at Quiesce every thread has left, every joinable one was joined, every stack allocated for them was released, and   *)
(*   every vCPU's thread count is back at its initial value.                                                             *)
EXTENDS Naturals, Integers, Sequences, FiniteSets, TLC, Json, IOUtils
Tr == ndJsonDeserialize(IOEnv.TRACE)
T == 1..16
NoTh == [ph |-> "none", join |-> FALSE, seg |-> -1, stack |-> -1, jinv |-> FALSE, joined |-> FALSE, pool |-> FALSE]
VARIABLES l, th, stacks
\* stacks: set of stack ids allocated since Reset and not yet released
vars == <<l, th, stacks>>
Init == l = 1 /\ th = [t \in T |-> NoTh] /\ stacks = {} /\ TLCSet(1, 0)
Ev(e) == l <= Len(Tr) /\ Tr[l].e = e /\ l' = l + 1
R == Tr[l]
Reset == Ev("Reset") /\ th' = [t \in T |-> NoTh] /\ stacks' = {}
CreateInv == /\ Ev("CreateInv") /\ th[R.t].ph = "none"
             /\ th' = [th EXCEPT ![R.t] = [NoTh EXCEPT !.ph = "created", !.join = R.join, !.pool = R.pool]] /\ UNCHANGED stacks
CreateResp == /\ Ev("CreateResp") /\ th[R.t].ph # "none"
              /\ (R.stack > 0 => R.stack \in stacks \/ th[R.t].ph = "left")     \* a detached thread may already be gone
              /\ th' = [th EXCEPT ![R.t].stack = R.stack] /\ UNCHANGED stacks
Alloc == Ev("Alloc") /\ R.s \notin stacks /\ stacks' = stacks \cup {R.s} /\ UNCHANGED th
Owner(s) == {t \in T : th[t].stack = s}
Free == /\ Ev("Free")
        /\ IF R.s \in stacks
           THEN /\ stacks' = stacks \ {R.s}
                /\ \A t \in Owner(R.s) : th[t].ph = "left" /\ (th[t].join => th[t].jinv)
           ELSE UNCHANGED stacks        \* a stack allocated before this execution (pool-owned thread of an earlier execution)
        /\ UNCHANGED th
Enter == /\ Ev("Enter") /\ th[R.t].ph = "created"
         /\ th' = [th EXCEPT ![R.t].ph = "entered"] /\ UNCHANGED stacks
Seg == /\ Ev("Seg") /\ th[R.t].ph = "entered" /\ th[R.t].seg = -1
       /\ th' = [th EXCEPT ![R.t].seg = R.v] /\ UNCHANGED stacks
SegEnd == /\ Ev("SegEnd") /\ th[R.t].ph = "entered" /\ th[R.t].seg = R.v
          /\ th' = [th EXCEPT ![R.t].seg = -1] /\ UNCHANGED stacks
Leave == /\ Ev("Leave") /\ th[R.t].ph = "entered" /\ th[R.t].seg = -1 /\ R.ret = R.t * 7
         /\ th' = [th EXCEPT ![R.t].ph = "left"] /\ UNCHANGED stacks
JoinInv == /\ Ev("JoinInv") /\ th[R.t].join /\ ~th[R.t].jinv
           /\ th' = [th EXCEPT ![R.t].jinv = TRUE] /\ UNCHANGED stacks
JoinResp == /\ Ev("JoinResp") /\ th[R.t].jinv /\ ~th[R.t].joined /\ th[R.t].ph = "left" /\ R.ret = R.t * 7
            /\ (th[R.t].stack > 0 => th[R.t].stack \notin stacks)          \* join released the stack
            /\ th' = [th EXCEPT ![R.t].joined = TRUE] /\ UNCHANGED stacks
Quiesce == /\ Ev("Quiesce")
           /\ \A t \in T : th[t].ph \in {"none", "left"} /\ (th[t].join => th[t].joined)
           /\ \A t \in T : (th[t].ph = "left" /\ th[t].stack > 0) => th[t].stack \notin stacks
           /\ \A k \in 1..Len(R.nth) : R.nth[k] = 0
           /\ UNCHANGED <<th, stacks>>
\* Tier-B events of the directed stand-by-queue stealing scenario (h_life --prim stealsb): a thread that is stolen is in no sleep
\* queue (back index -1: an interrupted sleeper waiting in a stand-by queue is still registered in its owner's sleep queue and
\* must be left alone); afterwards no vCPU counts a sleeping thread
HSteal == Ev("hSteal") /\ R.tidx = -1 /\ UNCHANGED <<th, stacks>>
StealSb == Ev("StealSb") /\ (\A k \in 1..Len(R.sleeping) : R.sleeping[k] = 0) /\ UNCHANGED <<th, stacks>>
Next == Reset \/ CreateInv \/ CreateResp \/ Alloc \/ Free \/ Enter \/ Seg \/ SegEnd \/ Leave \/ JoinInv \/ JoinResp \/ HSteal \/ StealSb \/ Quiesce
Spec == Init /\ [][Next]_vars
NotAccepted == l <= Len(Tr)
Progress == TLCSet(1, IF TLCGet(1) < l THEN l ELSE TLCGet(1))
Post == PrintT(<<"MAXL", TLCGet(1), Len(Tr)>>)
====
