SPECIFICATION Spec
CONSTANTS
  MaxEl = 3
  MaxLen = 3
  OtherEl = 3
  OtherLen = 2
  Depth = 1
  KF = {}
INVARIANT Correct
CHECK_DEADLOCK FALSE
