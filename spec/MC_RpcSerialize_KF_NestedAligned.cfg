\* documents finding: with the deviation KF_NestedAligned (the code as shipped) TLC reports RoundTrip violated
SPECIFICATION MCSpec
CONSTANTS
  Msgs <- MsgsKF
  MaxParts = 2
  MaxPartsH = 2
  MaxDev = 1
  Modes = {"honest"}
  KF_NestedAligned = TRUE
  KF_MapSlices = FALSE
  KF_FixedLen = FALSE
  KF_ArrayWalk = FALSE
  KF_Checksum = FALSE
INVARIANTS RoundTrip
CHECK_DEADLOCK FALSE
