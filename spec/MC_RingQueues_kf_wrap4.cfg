SPECIFICATION FairSpec
CONSTANTS
  Kind = "mpmc"
  Cap = 4
  M = 16
  MarkMod = 16
  Prod = {1}
  Cons = {3}
  Prog <- Prog_w_pp
  StartSet = {13, 14, 15}
  Bug = "none"
INVARIANTS ExactlyOnce FifoLinearizable PerProducerOrder CapacityBound NoTornSlot
PROPERTY Terminates
