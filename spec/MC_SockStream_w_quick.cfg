SPECIFICATION Spec
CONSTANTS
  K = 2
  WProgs <- WQ
  RProgs <- NoProg
  RawW = FALSE
  RawR = TRUE
  RawTotal = 0
  Tmos <- T1
  MaxT = 2
  Spurious = TRUE
  Interrupts = TRUE
  Bug = "none"
INVARIANTS ViewIsFunctionOfMoved StreamExact ReadWriteComplete RecvSendBounds NoHangPastTimeout WaitsOnlyForData
CHECK_DEADLOCK FALSE
