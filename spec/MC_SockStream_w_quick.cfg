SPECIFICATION Spec
CONSTANTS
  K = 2
  WProgs <- WQ
  RProgs <- NoProg
  RawW = FALSE
  RawR = TRUE
  RawTotal = 0
  Tmos <- T1
  MaxT = 1
  Spurious = TRUE
  Interrupts = FALSE
  Bug = "none"
INVARIANTS ViewIsFunctionOfMoved StreamExact ReadWriteComplete RecvSendBounds NoHangPastTimeout WaitsOnlyForData
CHECK_DEADLOCK FALSE
