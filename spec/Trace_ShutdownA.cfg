SPECIFICATION Spec
INVARIANTS NotAccepted
CONSTRAINT Progress
POSTCONDITION Post
CHECK_DEADLOCK FALSE
