SPECIFICATION Spec
CONSTANTS
  K = 3
  WProgs <- NoProg
  RProgs <- RT
  RawW = TRUE
  RawR = FALSE
  RawTotal = 5
  Tmos <- T01
  MaxT = 2
  Spurious = TRUE
  Interrupts = FALSE
  Bug = "none"
INVARIANTS ViewIsFunctionOfMoved StreamExact ReadWriteComplete RecvSendBounds NoHangPastTimeout WaitsOnlyForData
CHECK_DEADLOCK FALSE
