SPECIFICATION Spec
CONSTANTS
  K = 3
  WProgs <- NoProg
  RProgs <- RT
  RawW = TRUE
  RawR = FALSE
  RawTotal = 5
  Tmos <- T012
  MaxT = 3
  Spurious = TRUE
  Interrupts = TRUE
  Bug = "none"
INVARIANTS ViewIsFunctionOfMoved StreamExact ReadWriteComplete RecvSendBounds NoHangPastTimeout WaitsOnlyForData
CHECK_DEADLOCK FALSE
