SPECIFICATION Spec
CONSTANTS
  VCPU = {v1, v2}
  THREAD = {t1, t2, t3}
  v1 = v1
  v2 = v2
  t1 = t1
  t2 = t2
  t3 = t3
  MaxNow = 2
  Rounds = 1
  Contending = FALSE
  IntrBudget = 1
  Home <- HomeDef
INVARIANTS MutualExclusion OwnerConsistent ResultMatches FailedNotQueued OneRunner NotStuck WaitersHaveOwner
CHECK_DEADLOCK FALSE
