---- MODULE Trace_RwA ----
(* Tier-A trace validation for rwlock and qrwlock (C06).  Abstract object: a set of readers and at most one writer.   *)
(*   lock(mode)/try_lock(mode) = 0  <=> at one instant the mode was compatible and the caller was admitted;            *)
(*   a failed lock() changes nothing (so later lockers are judged against a state without it) and fails only by        *)
(*   timeout (finite timeout) or interruption (an interrupt was issued to the caller);                                 *)
(*   CsEnter(t, mode) only while t holds the lock in that mode: a writer is alone, readers may share;                  *)
(*   Quiesce: nobody holds it.  A Hang (a locker still blocked after all holders unlocked) has no action.              *)
EXTENDS Naturals, Integers, Sequences, FiniteSets, TLC, Json, IOUtils
Tr == ndJsonDeserialize(IOEnv.TRACE)
T == 1..12
ETIMEDOUT == 110
NoOp == [op |-> "none", lin |-> FALSE, res |-> 0, mode |-> 0, to |-> 0]
VARIABLES l, readers, writer, pend, intr, incs, shared
vars == <<l, readers, writer, pend, intr, incs, shared>>
Init == l = 1 /\ readers = {} /\ writer = 0 /\ pend = [t \in T |-> NoOp] /\ intr = {} /\ incs = {} /\ shared = 0 /\ TLCSet(1, 0)
Ev(e) == l <= Len(Tr) /\ Tr[l].e = e /\ l' = l + 1
R == Tr[l]
Reset == Ev("Reset") /\ readers' = {} /\ writer' = 0 /\ pend' = [t \in T |-> NoOp] /\ intr' = {} /\ incs' = {} /\ UNCHANGED shared
Inv == /\ Ev("Inv") /\ pend[R.t].op = "none"
       /\ pend' = [pend EXCEPT ![R.t] = [op |-> R.op, lin |-> FALSE, res |-> 0,
                                          mode |-> IF R.op = "unlock" THEN 0 ELSE R.mode,
                                          to |-> IF R.op = "lock" THEN R.to ELSE 0]]
       /\ UNCHANGED <<readers, writer, intr, incs, shared>>
LinAdmit(t) == /\ pend[t].op \in {"lock", "try_lock"} /\ ~pend[t].lin /\ writer = 0 /\ t \notin readers
               /\ IF pend[t].mode = 1 THEN readers' = readers \cup {t} /\ UNCHANGED writer
                                      ELSE readers = {} /\ writer' = t /\ UNCHANGED readers
               /\ pend' = [pend EXCEPT ![t].lin = TRUE, ![t].res = 0] /\ UNCHANGED <<l, intr, incs, shared>>
LinFail(t) == /\ pend[t].op \in {"lock", "try_lock"} /\ ~pend[t].lin
              /\ pend' = [pend EXCEPT ![t].lin = TRUE, ![t].res = -1] /\ UNCHANGED <<l, readers, writer, intr, incs, shared>>
LinUnlock(t) == /\ pend[t].op = "unlock" /\ ~pend[t].lin /\ t \notin incs
                /\ \/ writer = t /\ writer' = 0 /\ UNCHANGED readers
                   \/ t \in readers /\ readers' = readers \ {t} /\ UNCHANGED writer
                /\ pend' = [pend EXCEPT ![t].lin = TRUE, ![t].res = 0] /\ UNCHANGED <<l, intr, incs, shared>>
Resp == /\ Ev("Resp")
        /\ LET t == R.t  p == pend[t] IN
           /\ p.op = R.op /\ p.lin /\ p.res = R.r
           /\ (R.op = "lock" /\ R.r # 0) => \/ R.en = ETIMEDOUT /\ p.to # 2
                                            \/ R.en # ETIMEDOUT /\ t \in intr
           /\ pend' = [pend EXCEPT ![t] = NoOp]
        /\ UNCHANGED <<readers, writer, intr, incs, shared>>
CsEnter == /\ Ev("CsEnter") /\ pend[R.t].op = "none"
           /\ IF R.mode = 2 THEN writer = R.t /\ readers = {} /\ incs = {} ELSE R.t \in readers /\ writer = 0
           /\ incs' = incs \cup {R.t}
           /\ shared' = IF Cardinality(incs') > shared THEN Cardinality(incs') ELSE shared
           /\ UNCHANGED <<readers, writer, pend, intr>>
CsExit == Ev("CsExit") /\ R.t \in incs /\ incs' = incs \ {R.t} /\ UNCHANGED <<readers, writer, pend, intr, shared>>
Interrupt == Ev("Interrupt") /\ intr' = intr \cup {R.t} /\ UNCHANGED <<readers, writer, pend, incs, shared>>
\* threads found asleep in lock(): legitimate only while somebody holds the lock
Settle == /\ Ev("Settle")
          /\ \A i \in 1..Len(R.blocked) : pend[R.blocked[i]].op = "lock" /\ ~pend[R.blocked[i]].lin     \* asleep = not admitted
          /\ (Len(R.blocked) = 0 \/ readers # {} \/ writer # 0)
          /\ UNCHANGED <<readers, writer, pend, intr, incs, shared>>
Quiesce == /\ Ev("Quiesce") /\ \A t \in T : pend[t].op = "none"
           /\ readers = {} /\ writer = 0 /\ incs = {} /\ UNCHANGED <<readers, writer, pend, intr, incs, shared>>
Next == \/ Reset \/ Inv \/ Resp \/ CsEnter \/ CsExit \/ Interrupt \/ Settle \/ Quiesce
        \/ \E t \in T : LinAdmit(t) \/ LinFail(t) \/ LinUnlock(t)
Spec == Init /\ [][Next]_vars
WriterExclusive == writer # 0 => (readers = {} /\ incs \subseteq {writer})
NotAccepted == l <= Len(Tr)
Progress == TLCSet(1, IF TLCGet(1) < l THEN l ELSE TLCGet(1))
Post == PrintT(<<"MAXL", TLCGet(1), Len(Tr)>>)
====
