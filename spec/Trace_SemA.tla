---- MODULE Trace_SemA ----
(* Tier-A trace validation for the photon semaphore (C02).  The recorded history (h_sync --prim sem|semooo|semdestroy) *)
(* must be a behaviour of the abstract counting semaphore: every call takes effect atomically between Inv and Resp.    *)
(*   wait(n) = 0     <=> n tokens were taken at that instant (count >= n);  a failed wait takes nothing;               *)
(*   wait() may fail only by timeout (finite timeout, ETIMEDOUT) or, interruptible variant only, by interruption;      *)
(*   signal(n) adds n tokens, from photon threads and plain OS threads alike;                                          *)
(*   Settle / Quiesce: the real count() equals the abstract count (conservation), and no thread is left blocked while  *)
(*   the count covers the demand of every blocked waiter (in-order mode; then the head's demand is covered whoever it   *)
(*   is) or of any blocked waiter (out-of-order mode);                                                                 *)
(*   destroy-after-wait: signal() must have taken effect before the waiter destroys the object, and the poisoned       *)
(*   storage must still be intact after signal() returned.                                                             *)
EXTENDS Naturals, Integers, Sequences, FiniteSets, TLC, Json, IOUtils
Tr == ndJsonDeserialize(IOEnv.TRACE)
T == (1..12) \cup {90, 91}
ETIMEDOUT == 110
NoOp == [op |-> "none", lin |-> FALSE, res |-> 0, n |-> 0, to |-> 0]
VARIABLES l, count, pend, intr, ooo, destroyed
vars == <<l, count, pend, intr, ooo, destroyed>>
Init == l = 1 /\ count = 0 /\ pend = [t \in T |-> NoOp] /\ intr = {} /\ ooo = FALSE /\ destroyed = FALSE /\ TLCSet(1, 0)
Ev(e) == l <= Len(Tr) /\ Tr[l].e = e /\ l' = l + 1
R == Tr[l]
Reset == /\ Ev("Reset") /\ count' = R.init /\ pend' = [t \in T |-> NoOp] /\ intr' = {} /\ ooo' = R.ooo /\ destroyed' = FALSE
NewSem == /\ Ev("NewSem") /\ \A t \in T : pend[t].op = "none"
          /\ count' = 0 /\ destroyed' = FALSE /\ UNCHANGED <<pend, intr, ooo>>
Inv == /\ Ev("Inv") /\ pend[R.t].op = "none"
       /\ pend' = [pend EXCEPT ![R.t] = [op |-> R.op, lin |-> FALSE, res |-> 0, n |-> R.n,
                                          to |-> IF R.op = "signal" THEN 0 ELSE R.to]]
       /\ UNCHANGED <<count, intr, ooo, destroyed>>
LinSignal(t) == /\ pend[t].op = "signal" /\ ~pend[t].lin /\ ~destroyed
                /\ count' = count + pend[t].n
                /\ pend' = [pend EXCEPT ![t].lin = TRUE] /\ UNCHANGED <<l, intr, ooo, destroyed>>
LinTake(t) == /\ pend[t].op \in {"wait", "waiti"} /\ ~pend[t].lin /\ ~destroyed
              /\ count >= pend[t].n /\ count' = count - pend[t].n
              /\ pend' = [pend EXCEPT ![t].lin = TRUE, ![t].res = 0] /\ UNCHANGED <<l, intr, ooo, destroyed>>
LinFail(t) == /\ pend[t].op \in {"wait", "waiti"} /\ ~pend[t].lin
              /\ pend' = [pend EXCEPT ![t].lin = TRUE, ![t].res = -1] /\ UNCHANGED <<l, count, intr, ooo, destroyed>>
Resp == /\ Ev("Resp")
        /\ LET t == R.t  p == pend[t] IN
           /\ p.op = R.op /\ p.lin /\ p.res = R.r
           /\ (R.r # 0) => \/ R.en = ETIMEDOUT /\ p.to # 2
                           \/ R.en # ETIMEDOUT /\ p.op = "waiti" /\ t \in intr
           /\ pend' = [pend EXCEPT ![t] = NoOp]
        /\ UNCHANGED <<count, intr, ooo, destroyed>>
Interrupt == /\ Ev("Interrupt") /\ intr' = intr \cup {R.t} /\ UNCHANGED <<count, pend, ooo, destroyed>>
Demands == {R.blocked[i][2] : i \in 1..Len(R.blocked)}
Settle == /\ Ev("Settle")
          /\ \A i \in 1..Len(R.blocked) : LET t == R.blocked[i][1] IN pend[t].op \in {"wait", "waiti"} /\ ~pend[t].lin
          /\ \A t \in T : pend[t].op = "signal" => FALSE          \* every signal had returned
          /\ count = R.count                                      \* conservation
          /\ IF ooo THEN \A d \in Demands : d > count             \* nobody blocked whose demand is covered
                    ELSE \E d \in Demands : d > count             \* in-order: not everybody's demand is covered
          /\ UNCHANGED <<count, pend, intr, ooo, destroyed>>
Quiesce == /\ Ev("Quiesce") /\ \A t \in T : pend[t].op = "none"
           /\ (destroyed \/ count = R.count)
           /\ UNCHANGED <<count, pend, intr, ooo, destroyed>>
Destroyed == /\ Ev("Destroyed") /\ pend[R.t].op = "none"
             /\ \A t \in T : pend[t].op = "signal" => pend[t].lin      \* signal took effect while the object was alive
             /\ destroyed' = TRUE /\ UNCHANGED <<count, pend, intr, ooo>>
PoisonCheck == /\ Ev("PoisonCheck") /\ R.intact /\ UNCHANGED <<count, pend, intr, ooo, destroyed>>
Next == \/ Reset \/ NewSem \/ Inv \/ Resp \/ Interrupt \/ Settle \/ Quiesce \/ Destroyed \/ PoisonCheck
        \/ \E t \in T : LinSignal(t) \/ LinTake(t) \/ LinFail(t)
Spec == Init /\ [][Next]_vars
NotAccepted == l <= Len(Tr)
Progress == TLCSet(1, IF TLCGet(1) < l THEN l ELSE TLCGet(1))
Post == PrintT(<<"MAXL", TLCGet(1), Len(Tr)>>)
====
