SPECIFICATION Spec
CONSTANTS
  Workers = {w1, w2}
  External = {}
  w1 = w1
  w2 = w2
  s1 = s1
  s2 = s2
  Subs = {s1, s2}
  Mode = "thread"
  RingCap = 2
  PoolCap = 1
  NH = 3
  Prog <- Prog3a
  Bodies = {"plain", "yield", "sleep"}
  Variant = "none"
SYMMETRY Sym
INVARIANTS NoFault RunsExactlyOnce CallReturnsAfterFinish AsyncDeletedOnceAfterRun RecordCopiedBeforeReuse DestructorWaits EveryWorkerGetsOneMarker RingBounded RunningCounts
