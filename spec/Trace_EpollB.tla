---- MODULE Trace_EpollB ----
(* Tier-B trace validation for C10, engine io/epoll.cpp, observed WITHOUT library hooks through the interposed epoll_ctl /  *)
(* epoll_wait (harness/h_sock.cpp; executions of the epoll-engine modes).  The recorded kernel calls are replayed against    *)
(* the registration model of Epoll.tla (kreg: mask + armed, EPOLLONESHOT disarms on delivery, ADD / MOD arm) and the         *)
(* specification checks the library's side:                                                                                *)
(*   Registers          after EAGAIN the calling thread registers its descriptor one-shot with its own direction and with   *)
(*                      the other direction exactly when another thread is still waiting for it (merge, no loss);           *)
(*   EventGoesToItsWaiter  a thread retries its syscall only after an epoll_wait delivered an event for ITS descriptor and  *)
(*                      direction (error / hang-up count for both);                                                        *)
(*   NoLostReadiness    whenever a photon thread runs, every waiter that has not been told yet has an armed registration    *)
(*                      with its direction in the mask (the one-shot re-arm after the other direction fired, and after the   *)
(*                      other direction's waiter timed out: TimeoutIsolated);                                               *)
(*   every other MOD names exactly the directions still awaited; DEL only when nobody waits.                                *)
EXTENDS Naturals, Integers, Sequences, FiniteSets, TLC, Json, IOUtils
Tr == ndJsonDeserialize(IOEnv.TRACE)
VARIABLES l, kreg, call, wt
vars == <<l, kreg, call, wt>>
Empty == [x \in {} |-> 0]
Put(fn, k, v) == [x \in DOMAIN fn \cup {k} |-> IF x = k THEN v ELSE fn[x]]
Del(fn, k) == [x \in DOMAIN fn \ {k} |-> fn[x]]
Init == l = 1 /\ kreg = Empty /\ call = Empty /\ wt = Empty /\ TLCSet(1, 0)
Ev(e) == l <= Len(Tr) /\ Tr[l].e = e /\ l' = l + 1
R == Tr[l]
Dir(rw) == IF rw = 0 THEN "R" ELSE "W"
(* waiters registered and not yet told, on descriptor fd and direction d, other than thread x *)
RegOn(fd, d, x) == \E u \in DOMAIN wt : u # x /\ wt[u] = "reg" /\ call[u] = <<fd, d>>
B(x) == IF x THEN 1 ELSE 0
ArmedOKx(x) == \A u \in DOMAIN wt \ {x} : wt[u] = "reg" =>
              LET fd == call[u][1] IN fd \in DOMAIN kreg /\ kreg[fd].armed /\ (IF call[u][2] = "R" THEN kreg[fd].r ELSE kreg[fd].w) = 1
ArmedOK == ArmedOKx(0)
Reset == Ev("Reset") /\ kreg' = Empty /\ call' = Empty /\ wt' = Empty
Inv == /\ Ev("Inv") /\ ArmedOK /\ call' = Put(call, R.t, <<R.ep, Dir(R.rw)>>) /\ wt' = Del(wt, R.t) /\ UNCHANGED kreg
Sys == /\ Ev("Sys") /\ ArmedOK
       /\ (R.t \in DOMAIN wt) => wt[R.t] = "woken"                      \* resumed only by an event for its descriptor and direction
       /\ wt' = IF R.r = -1 /\ R.en = 11 THEN Put(wt, R.t, "want") ELSE Del(wt, R.t)
       /\ UNCHANGED <<kreg, call>>
Resp == /\ Ev("Resp") /\ ArmedOKx(R.t) /\ wt' = Del(wt, R.t) /\ call' = Del(call, R.t) /\ UNCHANGED kreg
Ctl == /\ Ev("Ctl")
       /\ IF R.r # 0 THEN UNCHANGED <<kreg, wt>>                          \* a failed call changes nothing (MOD -> ENOENT -> ADD follows)
          ELSE IF R.op = "del" THEN /\ ~RegOn(R.fd, "R", 0) /\ ~RegOn(R.fd, "W", 0)
                                    /\ kreg' = Del(kreg, R.fd) /\ UNCHANGED wt
          ELSE IF R.t \in DOMAIN wt /\ wt[R.t] = "want"
          THEN LET fd == call[R.t][1]  d == call[R.t][2] IN                 \* add_interest of a thread that saw EAGAIN
               /\ R.fd = fd /\ R.os = 1 /\ R.et = 0
               /\ R["in"] = B(d = "R" \/ RegOn(fd, "R", R.t)) /\ R.out = B(d = "W" \/ RegOn(fd, "W", R.t))
               /\ kreg' = Put(kreg, fd, [r |-> R["in"], w |-> R.out, armed |-> TRUE])
               /\ wt' = Put(wt, R.t, "reg")
          ELSE /\ R.os = 1 /\ R.op = "mod"                                   \* re-arm after a one-shot delivery, or a waiter's clean-up
               /\ R["in"] = B(RegOn(R.fd, "R", R.t)) /\ R.out = B(RegOn(R.fd, "W", R.t))
               /\ kreg' = Put(kreg, R.fd, [r |-> R["in"], w |-> R.out, armed |-> TRUE])
               /\ UNCHANGED wt
       /\ UNCHANGED call
(* epoll_wait: every delivered descriptor had an armed registration (kernel model) and is disarmed; waiters of the delivered directions are told *)
RECURSIVE Deliver(_, _, _)
Deliver(evs, kr, w) == IF evs = <<>> THEN <<kr, w, TRUE>> ELSE
    LET e == evs[1]  fd == e[1] IN
    IF ~(fd \in DOMAIN kr /\ kr[fd].armed) THEN <<kr, w, FALSE>>
    ELSE Deliver(Tail(evs), [kr EXCEPT ![fd].armed = FALSE],
                 [u \in DOMAIN w |-> IF w[u] = "reg" /\ call[u][1] = fd
                                        /\ ((call[u][2] = "R" /\ (e[2] = 1 \/ e[4] = 1)) \/ (call[u][2] = "W" /\ (e[3] = 1 \/ e[4] = 1)))
                                     THEN "woken" ELSE w[u]])
EpWait == /\ Ev("EpWait")
          /\ LET d == Deliver(R.evs, kreg, wt) IN d[3] /\ kreg' = d[1] /\ wt' = d[2]
          /\ UNCHANGED call
Other == /\ l <= Len(Tr) /\ Tr[l].e \in {"PeerWrite", "PeerRead", "PeerShutdown", "Interrupt"} /\ l' = l + 1 /\ UNCHANGED <<kreg, call, wt>>
Quiesce == Ev("Quiesce") /\ wt = Empty /\ UNCHANGED <<kreg, call, wt>>
Next == Reset \/ Inv \/ Sys \/ Resp \/ Ctl \/ EpWait \/ Other \/ Quiesce
Spec == Init /\ [][Next]_vars
NotAccepted == l <= Len(Tr)
Progress == TLCSet(1, IF TLCGet(1) < l THEN l ELSE TLCGet(1))
Post == PrintT(<<"MAXL", TLCGet(1), Len(Tr)>>)
Brief == [l |-> l]
====
