SPECIFICATION Spec
CONSTANTS
  t1 = t1
  t2 = t2
  t3 = t3
  Threads = {t1, t2, t3}
  Keys = {1}
  MaxAcq = 2
  MaxBoxes = 4
  Lifespan = 0
  MaxNow = 2
  CoolDowns = {0, 1}
  StallFree = TRUE
  FixTail = FALSE
  BugNoCreateLock = FALSE
SYMMETRY Perm3
INVARIANTS BoxNotErasedWhileReferenced BoxTailSafe LruSane CtorNotConcurrent OneBoxPerKey RcCounts
