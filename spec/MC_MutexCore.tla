---- MODULE MC_MutexCore ----
EXTENDS MutexCore
CONSTANTS v1, v2, t1, t2, t3
HomeDef == (t1 :> v1) @@ (t2 :> v1) @@ (t3 :> v2)
HomeOne == (t1 :> v1) @@ (t2 :> v1) @@ (t3 :> v1)
====
