---- MODULE MC_RWLock ----
EXTENDS RWLock
CONSTANTS t1, t2, t3, t4
M1 == (t1 :> "r") @@ (t2 :> "w") @@ (t3 :> "r") @@ (t4 :> "w")
M2 == (t1 :> "w") @@ (t2 :> "r") @@ (t3 :> "r") @@ (t4 :> "r")
====
