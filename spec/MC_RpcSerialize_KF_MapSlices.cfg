\* documents finding: with the deviation KF_MapSlices (the code as shipped) TLC reports HostileContained violated
SPECIFICATION MCSpec
CONSTANTS
  Msgs <- MsgsKF
  MaxParts = 2
  MaxPartsH = 2
  MaxDev = 1
  Modes = {"hostileSL"}
  KF_NestedAligned = FALSE
  KF_MapSlices = TRUE
  KF_FixedLen = FALSE
  KF_ArrayWalk = FALSE
  KF_Checksum = FALSE
INVARIANTS HostileContained
CHECK_DEADLOCK FALSE
