---- MODULE MC_RpcSerialize ----
(* Scopes for RpcSerialize (C12).  Sizes are abstract: body 2 bytes, array element / T / index entry 2 bytes. *)
EXTENDS RpcSerialize
IovLens == {<<>>, <<0>>, <<2>>, <<1, 1>>, <<0, 2>>}
Plain(ML) == {<<k, n>> : k \in {"buf", "abuf", "str"}, n \in 0..ML}
LeafOpts(ML) == Plain(ML) \cup {<<"arr", 2 * c, 2>> : c \in 0..1} \cup {<<"fbuf", 2, 2>>}
                \cup {<<k, l>> : k \in {"iov", "aiov"}, l \in IovLens}
NestFields(ML) == {<<k, n>> : k \in {"buf", "abuf", "str"}, n \in {0, ML}} \cup {<<"aiov", <<1>>>>}
NestOpts(ML) == {<<"msg", <<a>>>> : a \in NestFields(ML)} \cup {<<"msg", <<a, b>>>> : a, b \in NestFields(ML)}
Elem(n) == << <<"str", n>> >>
ArrmOpts == {<<"arrm", 2, e>> : e \in {<<>>, <<Elem(1)>>, <<Elem(0), Elem(2)>>, <<Elem(1), Elem(1)>>}}
MapOpts == {<<"map", 2, 0, <<>>>>, <<"map", 2, 3, << <<0, 1, 1, 2>> >>>>,
            <<"map", 2, 6, << <<3, 1, 4, 2>>, <<0, 1, 1, 2>> >>>>}
Opts(ML) == LeafOpts(ML) \cup NestOpts(ML) \cup ArrmOpts \cup MapOpts
NMaps(fs) == Cardinality({i \in 1..Len(fs) : fs[i][1] = "map"})
MsgsOf(NF, ML) == {[ck |-> c, S |-> 2, fs |-> fs] : c \in BOOLEAN,
                    fs \in {f \in UNION {[1..n -> Opts(ML)] : n \in 1..NF} : NMaps(f) <= 1}}
\* quick: every single-field message, and every pair over a representative subset
Repr == {<<"buf", 2>>, <<"abuf", 1>>, <<"str", 0>>, <<"str", 2>>, <<"arr", 2, 2>>, <<"fbuf", 2, 2>>, <<"iov", <<1, 1>>>>,
         <<"aiov", <<0, 2>>>>, <<"msg", <<<<"abuf", 2>>, <<"str", 2>>>>>>, <<"msg", <<<<"buf", 0>>, <<"aiov", <<1>>>>>>>>,
         <<"arrm", 2, <<Elem(0), Elem(2)>>>>, <<"map", 2, 6, << <<3, 1, 4, 2>>, <<0, 1, 1, 2>> >>>>}
Repr2 == {<<"buf", 2>>, <<"abuf", 1>>, <<"str", 0>>, <<"fbuf", 2, 2>>, <<"iov", <<1, 1>>>>, <<"aiov", <<0, 2>>>>,
          <<"msg", <<<<"abuf", 2>>, <<"str", 2>>>>>>, <<"arrm", 2, <<Elem(0), Elem(2)>>>>, <<"map", 2, 6, << <<3, 1, 4, 2>>, <<0, 1, 1, 2>> >>>>}
MsgsQuick == MsgsOf(1, 2) \cup {[ck |-> c, S |-> 2, fs |-> <<a, b>>] : c \in BOOLEAN, a \in Repr2, b \in Repr2 \ MapOpts}
\* thorough: every pair over a medium option set, every triple over the representative subset
Opts2 == Plain(2) \cup {<<"arr", 2 * c, 2>> : c \in 0..1} \cup {<<"fbuf", 2, 2>>}
         \cup {<<k, l>> : k \in {"iov", "aiov"}, l \in {<<>>, <<2>>, <<1, 1>>, <<0, 2>>}}
         \cup {<<"msg", <<a>>>> : a \in NestFields(2)} \cup {<<"msg", <<a, b>>>> : a \in {<<"abuf", 2>>, <<"buf", 0>>}, b \in {<<"str", 2>>, <<"aiov", <<1>>>>}}
         \cup ArrmOpts \cup MapOpts
MsgsThorough == MsgsOf(1, 2)
                \cup {[ck |-> c, S |-> 2, fs |-> <<a, b>>] : c \in BOOLEAN, a \in Opts2, b \in Opts2 \ MapOpts}
                \cup {[ck |-> c, S |-> 2, fs |-> <<a, b, d>>] : c \in BOOLEAN, a \in Repr2, b \in Repr2 \ MapOpts, d \in Repr2 \ MapOpts}
\* the known-finding configurations only need a witness
MsgsKF == {[ck |-> c, S |-> 2, fs |-> <<a>>] : c \in BOOLEAN, a \in Repr}
ModesAll == {"honest", "hostile", "hostileSL", "altered", "short"}
====
