\* C11: the code as written against the strict NoAccessAfterReturn: EXPECTED TO BE VIOLATED (finding F4, rediscovery witness).
SPECIFICATION Spec
CONSTANTS
  C = {c1, c2, c3}
  Timed = {c1, c2, c3}
  MaxExpire = 1
  MaxErr = 1
  MaxBogus = 1
  Variant = "asis"
  EarlyResponse = FALSE
INVARIANTS NoAccessAfterReturn
SYMMETRY Sym
CHECK_DEADLOCK FALSE
