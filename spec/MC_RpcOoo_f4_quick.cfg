\* C11 quick: the code as written against the strict NoAccessAfterReturn: EXPECTED TO BE VIOLATED (finding F4; the check
\* verifies that the counterexample has F4's shape).  3 callers, responses in all orders (header and body separate arrivals), 1 deadline(s) may pass anywhere, 1 stream error(s), 0 unknown-or-duplicate response(s)
SPECIFICATION Spec
CONSTANTS
  C = {c1, c2, c3}
  Timed = {c1, c2, c3}
  MaxExpire = 1
  MaxErr = 1
  MaxBogus = 0
  Variant = "asis"
  EarlyResponse = FALSE
INVARIANTS NoAccessAfterReturn
SYMMETRY Sym
CHECK_DEADLOCK FALSE
