---- MODULE Trace_RangeLockSeq ----
(* C18, sequential conformance.  Judges rows recorded by harness/h_rangelock.cpp (--prim seq | seqrand): each row is one   *)
(* sequence of calls on a fresh REAL RangeLock, executed by one thread, with the result of every call.                      *)
(*                                                                                                                          *)
(* The reference is the abstract object the property talks about: the collection of ranges currently held.                  *)
(* Word 0..M with saturating addition (End).  A range (off, len) covers the bytes off .. End-1.                              *)
(*   Overlap(a, b)  two ranges share a byte                          -- what must never be granted twice                     *)
(*   Touch(a, b)    a.off < End(b) /\ b.off < End(a)                 -- the interval test; for two ranges that both cover   *)
(*                  a byte it is the same as Overlap; a range that covers no byte "touches" a range that strictly contains   *)
(*                  its offset.  The property is silent about whether such a request has to wait, so both answers are taken. *)
(* Per call:                                                                                                                *)
(*   lock request granted  => it shares no byte with any held range               ("held ranges never overlap")             *)
(*   lock request refused (the call slept and was released by an interrupt) => it touches some held range                    *)
(*                                                                                  ("nobody waits when the conflict is gone") *)
(*   unlock(handle) releases that range; unlock(off,len) releases every held range inside (off,len) - a range covering no    *)
(*     byte is inside when (off,len) strictly contains its offset - and every range that was locked as exactly (off,len)     *)
(*     through try_lock_wait;                                                                                               *)
(*   adjust_range granted => the new range shares no byte with any other held range; a refusal changes nothing (always ok).  *)
(* Known deviations are switches (environment KF_F11=1, KF_C18a=1; all off = the property itself):                           *)
(*   F11   from the moment a request that covers no byte is granted while another held range covers no byte at the same      *)
(*         offset (two keys a, b with a < b and b < a in the std::set: its behaviour is undefined from then on), every       *)
(*         later answer is accepted; the harness stops releasing from that moment (result -9 = call not made).              *)
(*   C18a  unlock(off,len) does not release a range that covers no byte and was locked as exactly (off,len).                 *)
(* All rows are judged while the initial state is computed.  A row the property rejects is printed as                       *)
(*   "MISMATCH <line> <problems>"        if the enabled switches do not explain it either (problems = those of the property), *)
(*   "KFHIT <line> <switches needed>"    if they do.                                                                        *)
EXTENDS Naturals, Integers, Sequences, FiniteSets, TLC, Json, IOUtils
Tr == ndJsonDeserialize(IOEnv.TRACE)
VARIABLE l
Min2(a, b) == IF a < b THEN a ELSE b
Max2(a, b) == IF a > b THEN a ELSE b
End(M, o, n) == Min2(M, o + n)
IsEmpty(M, o, n) == End(M, o, n) = o
Overlap(M, o1, n1, o2, n2) == Max2(o1, o2) < Min2(End(M, o1, n1), End(M, o2, n2))
Touch(M, o1, n1, o2, n2) == o1 < End(M, o2, n2) /\ o2 < End(M, o1, n1)
Contains(M, o1, n1, o2, n2) == o1 <= o2 /\ End(M, o1, n1) >= End(M, o2, n2)

\* H: one tuple <<off, len, live, kind>> per call made so far (kind 1: handle, 2: locked through try_lock_wait, 0: not an acquisition)
Live(H) == {j \in 1..Len(H) : H[j][3] = 1}
Dead == <<0, 0, 0, 0>>

\* one call; returns <<H', dup', problems>>
Step(M, H, dup, op, kf) ==
  LET kind == op[1]  res == op[5]  quiet == ("F11" \in kf /\ dup) IN
  CASE kind \in {1, 2} ->
         LET o == op[2]  n == op[3]
             ov == \E j \in Live(H) : Overlap(M, H[j][1], H[j][2], o, n)
             tc == \E j \in Live(H) : Touch(M, H[j][1], H[j][2], o, n)
             twin == IsEmpty(M, o, n) /\ \E j \in Live(H) : H[j][1] = o /\ IsEmpty(M, H[j][1], H[j][2])
         IN IF res = 1
            THEN <<Append(H, <<o, n, 1, kind>>), dup \/ twin,
                   IF ov /\ ~quiet THEN {"granted although it shares a byte with a held range"} ELSE {}>>
            ELSE <<Append(H, Dead), dup,
                   IF ~tc /\ ~quiet THEN {"refused although it conflicts with nothing that is held"} ELSE {}>>
    [] kind = 3 ->
         IF res = -9 THEN <<Append(H, Dead), dup, IF dup THEN {} ELSE {"harness did not make the call"}>>
         ELSE <<Append([H EXCEPT ![op[2]] = Dead], Dead), dup, {}>>
    [] kind = 4 ->
         IF res = -9 THEN <<Append(H, Dead), dup, IF dup THEN {} ELSE {"harness did not make the call"}>>
         ELSE LET o == op[2]  n == op[3]
                  gone(j) == /\ Contains(M, o, n, H[j][1], H[j][2])
                             /\ \/ Touch(M, o, n, H[j][1], H[j][2])
                                \/ ("C18a" \notin kf /\ H[j][4] = 2 /\ H[j][1] = o /\ H[j][2] = n)
              IN <<Append([j \in 1..Len(H) |-> IF H[j][3] = 1 /\ gone(j) THEN Dead ELSE H[j]], Dead), dup, {}>>
    [] kind = 5 ->
         IF res = -9 THEN <<Append(H, Dead), dup, IF dup THEN {} ELSE {"harness did not make the call"}>>
         ELSE IF res = 1
         THEN LET k == op[2]  o == op[3]  n == op[4]
                  ov == \E j \in Live(H) \ {k} : Overlap(M, H[j][1], H[j][2], o, n)
              IN <<Append([H EXCEPT ![k] = <<o, n, 1, H[k][4]>>], Dead), dup,
                   IF ov /\ ~quiet THEN {"adjusted although the new range shares a byte with another held range"} ELSE {}>>
         ELSE <<Append(H, Dead), dup, {}>>
    [] OTHER -> <<Append(H, Dead), dup, {"unknown call"}>>

RECURSIVE Run(_, _, _, _, _, _)
Run(M, ops, i, H, dup, kf) ==
  IF i > Len(ops) THEN {}
  ELSE LET s == Step(M, H, dup, ops[i], kf) IN s[3] \cup Run(M, ops, i + 1, s[1], s[2], kf)

Problems(r, kf) == IF r.e # "Seq" THEN {"fatal: " \o r.e} ELSE Run(r.M, r.ops, 1, <<>>, FALSE, kf)
KF(k) == ("KF_" \o k) \in DOMAIN IOEnv /\ IOEnv["KF_" \o k] = "1"
KFS == {k \in {"F11", "C18a"} : KF(k)}
Judge(i) == LET p == Problems(Tr[i], {}) IN
            IF p = {} THEN TRUE
            ELSE IF Problems(Tr[i], KFS) # {} THEN PrintT("MISMATCH " \o ToString(i) \o " " \o ToString(p))
            ELSE LET need == {k \in KFS : Problems(Tr[i], KFS \ {k}) # {}} IN
                 PrintT("KFHIT " \o ToString(i) \o " " \o ToString(IF need = {} THEN KFS ELSE need))
Init == /\ l = 1
        /\ \A i \in 1..Len(Tr) : Judge(i)
        /\ PrintT(<<"JUDGED", Len(Tr)>>)
Next == l = 1 /\ l' = 2
Spec == Init /\ [][Next]_l
====
