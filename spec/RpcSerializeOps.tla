------------------------- MODULE RpcSerializeOps -------------------------
(* C12.  Transcription of rpc/serialize.h (SerializerIOV::serialize,       *)
(* DeserializerIOV::deserialize, ArchiveBase / _FilterAlignedFields field  *)
(* dispatch, sorted_map) and of the iovector operations they use           *)
(* (common/iovector.h extract_back_continuous / extract_front_continuous / *)
(* extract_front(bytes, view); common/iovector.cpp do_extract_front/back), *)
(* together with the declarative reference that property C12 states        *)
(* (RoundTrip, HostileContained, ChecksumRejects).                         *)
(*                                                                         *)
(* A message is  [ck |-> checked?, S |-> sizeof(body), fs |-> fields]      *)
(* with fields (declaration order, tuples; the same form is logged as JSON *)
(* by harness/h_serialize.cpp):                                            *)
(*   <<"buf",n>> <<"abuf",n>> <<"str",n>>       n = honest length in bytes *)
(*   <<"arr",n,es>>        array<T>, T plain, es = sizeof(T)               *)
(*   <<"fbuf",n,ts>>       fixed_buffer<T>, ts = sizeof(T)                 *)
(*   <<"iov",lens>> <<"aiov",lens>>   iovec_array / aligned_iovec_array    *)
(*   <<"msg",fields>>      embedded Message                                *)
(*   <<"arrm",es,elems>>   array<Msg>; elems = <<fields of elem 1, ...>>   *)
(*   <<"map",ie,B,sls>>    sorted_map: index entry size, base length,      *)
(*                         sls = << <<koff,klen,voff,vlen>>, ... >>        *)
(* Bytes are identified by their position in the flat serialization.       *)
(* Every length word that travels inside the body ("wire word") has an     *)
(* index wi (declaration order, depth first); W[wi] is its value as found  *)
(* on the wire (honest = as serialized, hostile = anything).               *)
EXTENDS Integers, Sequences, FiniteSets, TLC

CONSTANTS
  KF_NestedAligned, \* TRUE = as shipped: an aligned_buffer / aligned_iovec_array inside an embedded
                    \*   message matches ArchiveBase's catch-all process_field(T&) and is neither
                    \*   serialized nor deserialized
  KF_MapSlices,     \* TRUE = as shipped: index slices are not compared with the base buffer (assert only)
  KF_FixedLen,      \* TRUE = as shipped: fixed_buffer<T> accepts any wire length
  KF_ArrayWalk,     \* TRUE = as shipped: after a failed claim of an array<Msg> the elements are still walked
  KF_Checksum       \* TRUE = as shipped: the checksum field is the running hash, so what is hashed before the
                    \*   body cancels out: only the body is protected

MAXW == 1000000000  \* how any wire value >= 2^31 is logged / modelled ("larger than any input")

(* ------------------------------------------------------------------ *)
(* iovector: a sequence of elements [o |-> offset in flat input, n]    *)
(* ------------------------------------------------------------------ *)
El(o, n) == [o |-> o, n |-> n]
RECURSIVE SumSeq(_)
SumSeq(s) == IF s = <<>> THEN 0 ELSE Head(s) + SumSeq(Tail(s))
RECURSIVE SumEls(_)
SumEls(els) == IF els = <<>> THEN 0 ELSE Head(els).n + SumEls(Tail(els))
RECURSIVE PartFrom(_, _, _)
PartFrom(part, k, o) == IF k > Len(part) THEN <<>> ELSE <<El(o, part[k])>> \o PartFrom(part, k + 1, o + part[k])
PartEls(part) == PartFrom(part, 1, 0)
FrontOf(s) == SubSeq(s, 1, Len(s) - 1)

\* ioview::do_extract_front(bytes): what is left
RECURSIVE DropFront(_, _)
DropFront(els, b) ==
  IF b = 0 \/ els = <<>> THEN els
  ELSE LET v == Head(els) IN
       IF b <= v.n THEN (IF b = v.n THEN Tail(els) ELSE <<El(v.o + b, v.n - b)>> \o Tail(els))
       ELSE DropFront(Tail(els), b - v.n)
\* ioview::do_extract_front(bytes, cb): the pieces handed to the callback (empty elements included)
RECURSIVE PiecesFront(_, _)
PiecesFront(els, b) ==
  IF b = 0 \/ els = <<>> THEN <<>>
  ELSE LET v == Head(els) IN
       IF b <= v.n THEN <<El(v.o, b)>>
       ELSE <<El(v.o, v.n)>> \o PiecesFront(Tail(els), b - v.n)
RECURSIVE DropBack(_, _)
DropBack(els, b) ==
  IF b = 0 \/ els = <<>> THEN els
  ELSE LET v == els[Len(els)] IN
       IF b <= v.n THEN (IF b = v.n THEN FrontOf(els) ELSE FrontOf(els) \o <<El(v.o, v.n - b)>>)
       ELSE DropBack(FrontOf(els), b - v.n)
RECURSIVE FirstPos(_)
FirstPos(els) == IF els = <<>> THEN 0 ELSE IF Head(els).n > 0 THEN Head(els).o ELSE FirstPos(Tail(els))
RECURSIVE LastEnd(_)
LastEnd(els) == IF els = <<>> THEN 0
                ELSE LET v == els[Len(els)] IN IF v.n > 0 THEN v.o + v.n ELSE LastEnd(FrontOf(els))

\* result of a claim: where = "in" (pointer into the input at pos) | "copy" (fresh buffer holding the input
\* bytes pos..pos+len) | "empty" (length 0, pointer untouched) | "null" (claim failed) | "wire" (never
\* processed: pointer and length are whatever the sender wrote) | "unset"
R(w, p, n) == [where |-> w, pos |-> p, len |-> n, pieces |-> <<>>]
Unset == R("unset", 0, 0)

\* iovector::extract_front_continuous(b), b > 0   (common/iovector.h:529, iovector_view 120)
FrontCont(els, b) ==
  IF els # <<>> /\ Head(els).n >= b
  THEN [ok |-> TRUE, where |-> "in", pos |-> Head(els).o,
        els |-> IF Head(els).n = b THEN Tail(els) ELSE <<El(Head(els).o + b, Head(els).n - b)>> \o Tail(els)]
  ELSE IF SumEls(els) < b THEN [ok |-> FALSE, where |-> "null", pos |-> 0, els |-> els]
  ELSE [ok |-> TRUE, where |-> "copy", pos |-> FirstPos(els), els |-> DropFront(els, b)]
\* iovector::extract_back_continuous(b), b > 0    (common/iovector.h:623, iovector_view 149)
BackCont(els, b) ==
  IF els # <<>> /\ els[Len(els)].n >= b
  THEN LET v == els[Len(els)] IN
       [ok |-> TRUE, where |-> "in", pos |-> v.o + v.n - b,
        els |-> IF v.n = b THEN FrontOf(els) ELSE FrontOf(els) \o <<El(v.o, v.n - b)>>]
  ELSE IF SumEls(els) < b THEN [ok |-> FALSE, where |-> "null", pos |-> 0, els |-> els]
  ELSE [ok |-> TRUE, where |-> "copy", pos |-> LastEnd(els) - b, els |-> DropBack(els, b)]

(* ------------------------------------------------------------------ *)
(* field traversal (Message::reduce / ArchiveBase::process_field)      *)
(* ------------------------------------------------------------------ *)
\* one leaf = one wire word.  nested: reached through an embedded message (or array element), i.e. processed
\* by the archive itself and not through _FilterAlignedFields; dep/ei/pes: element ei of the array<Msg> whose
\* word is dep (elements of pes bytes); es: element / T size; n: honest length; lens: honest iovec lengths
Leaf(k, wi, nested, dep, ei, pes, es, n, lens) ==
  [k |-> k, wi |-> wi, nested |-> nested, dep |-> dep, ei |-> ei, pes |-> pes, es |-> es, n |-> n, lens |-> lens]

RECURSIVE WalkFs(_, _, _, _, _, _, _)
RECURSIVE WalkElems(_, _, _, _, _)
WalkFs(fs, i, wi, nested, dep, ei, pes) ==      \* [ls |-> leaves in declaration order, wi |-> next free index]
  IF i > Len(fs) THEN [ls |-> <<>>, wi |-> wi]
  ELSE LET f == fs[i]
           k == f[1]
           one ==
             IF k \in {"buf", "abuf", "str"}
             THEN [ls |-> <<Leaf(k, wi, nested, dep, ei, pes, 1, f[2], <<>>)>>, wi |-> wi + 1]
             ELSE IF k \in {"arr", "fbuf"}
             THEN [ls |-> <<Leaf(k, wi, nested, dep, ei, pes, f[3], f[2], <<>>)>>, wi |-> wi + 1]
             ELSE IF k \in {"iov", "aiov"}
             THEN [ls |-> <<Leaf(k, wi, nested, dep, ei, pes, 1, SumSeq(f[2]), f[2])>>, wi |-> wi + 1]
             ELSE IF k = "msg" THEN WalkFs(f[2], 1, wi, TRUE, dep, ei, pes)
             ELSE IF k = "arrm"
             THEN LET el == WalkElems(f[3], 1, wi + 1, wi, f[2]) IN
                  [ls |-> <<Leaf("arrm", wi, nested, dep, ei, pes, f[2], f[2] * Len(f[3]), <<>>)>> \o el.ls, wi |-> el.wi]
             ELSE \* "map": index (array of pair<slice,slice>), then base_buffer
                  [ls |-> <<Leaf("idx", wi, nested, dep, ei, pes, f[2], f[2] * Len(f[4]), <<>>),
                            Leaf("base", wi + 1, nested, dep, ei, pes, 1, f[3], <<>>)>>, wi |-> wi + 2]
           rest == WalkFs(fs, i + 1, one.wi, nested, dep, ei, pes)
       IN [ls |-> one.ls \o rest.ls, wi |-> rest.wi]
WalkElems(elems, e, wi, parent, pes) ==
  IF e > Len(elems) THEN [ls |-> <<>>, wi |-> wi]
  ELSE LET one == WalkFs(elems[e], 1, wi, TRUE, parent, e, pes)
           rest == WalkElems(elems, e + 1, one.wi, parent, pes)
       IN [ls |-> one.ls \o rest.ls, wi |-> rest.wi]

Dfs(msg) == WalkFs(msg.fs, 1, 1, FALSE, 0, 0, 1).ls      \* leaves in declaration order; leaf i has wi = i
NW(msg) == Len(Dfs(msg))
HonestW(msg) == LET dfs == Dfs(msg) IN [i \in 1..Len(dfs) |-> dfs[i].n]
\* the map field of a message (the scope has at most one, at top level or embedded)
RECURSIVE MapsOf(_, _)
MapsOf(fs, i) == IF i > Len(fs) THEN <<>>
                 ELSE (IF fs[i][1] = "map" THEN <<fs[i]>> ELSE IF fs[i][1] = "msg" THEN MapsOf(fs[i][2], 1) ELSE <<>>)
                      \o MapsOf(fs, i + 1)
HonestSL(msg) == IF MapsOf(msg.fs, 1) = <<>> THEN <<>> ELSE MapsOf(msg.fs, 1)[1][4]

\* serialize()/deserialize(): first pass = aligned fields seen by _FilterAlignedFields (top level only),
\* second pass = everything else, embedded messages expanded in place      (rpc/serialize.h:419-422, 469-472)
IsAligned(L) == L.k \in {"abuf", "aiov"}
Skipped(L) == KF_NestedAligned /\ IsAligned(L) /\ L.nested
OrderOf(dfs) == SelectSeq(dfs, LAMBDA L : IsAligned(L) /\ ~L.nested) \o SelectSeq(dfs, LAMBDA L : ~(IsAligned(L) /\ ~L.nested))
Order(msg) == OrderOf(Dfs(msg))

(* ------------------------------------------------------------------ *)
(* Serialize: pieces, flat layout, byte ids                            *)
(* ------------------------------------------------------------------ *)
SerLen(L) == IF Skipped(L) THEN 0 ELSE L.n
RECURSIVE SumLens(_, _)
SumLens(ord, k) == IF k = 0 THEN 0 ELSE SerLen(ord[k]) + SumLens(ord, k - 1)
VarLen(msg) == LET ord == Order(msg) IN SumLens(ord, Len(ord))
FlatLen(msg) == VarLen(msg) + msg.S
RECURSIVE StartAcc(_, _, _, _)
StartAcc(ord, k, off, f) == IF k > Len(ord) THEN f ELSE StartAcc(ord, k + 1, off + SerLen(ord[k]), (ord[k].wi :> off) @@ f)
StartPosOf(ord) == StartAcc(ord, 1, 0, <<>>)          \* wi -> where the field's bytes start in the flat serialization
StartPos(msg) == StartPosOf(Order(msg))
\* everything that depends on the schema only, computed once per message
Cx(msg) == LET dfs == Dfs(msg)  ord == OrderOf(dfs) IN [dfs |-> dfs, ord |-> ord, sp |-> StartPosOf(ord), S |-> msg.S, ck |-> msg.ck]
\* pieces pushed by SerializerIOV (empty buffers are not pushed; an iovec_array pushes its elements)
RECURSIVE PiecesOf(_, _)
PiecesOf(ord, k) ==
  IF k > Len(ord) THEN <<>>
  ELSE LET L == ord[k] IN
       (IF Skipped(L) THEN <<>>
        ELSE IF L.k \in {"iov", "aiov"} THEN SelectSeq([j \in 1..Len(L.lens) |-> <<L.wi, L.lens[j]>>], LAMBDA p : p[2] > 0)
        ELSE IF L.n > 0 THEN << <<L.wi, L.n>> >> ELSE <<>>) \o PiecesOf(ord, k + 1)
SerPieces(msg) == PiecesOf(Order(msg), 1) \o << <<0, msg.S>> >>      \* ... then the body (wi 0)
\* flat byte ids: <<wi, j>> = j-th byte of the variable part of word wi; <<0, j>> = body
RECURSIVE IdsOf(_, _, _)
IdsOf(pieces, k, seen) ==     \* seen: function wi -> bytes of that wi already emitted
  IF k > Len(pieces) THEN <<>>
  ELSE LET w == pieces[k][1]  n == pieces[k][2]  s == IF w \in DOMAIN seen THEN seen[w] ELSE 0 IN
       [j \in 1..n |-> <<w, s + j>>] \o IdsOf(pieces, k + 1, (w :> (s + n)) @@ seen)
FlatIds(msg) == IdsOf(SerPieces(msg), 1, <<>>)

(* ------------------------------------------------------------------ *)
(* Deserialize                                                         *)
(* ------------------------------------------------------------------ *)
\* is the leaf (an array element's field) processed at all?  size() = _len / sizeof(T)
ElemCount(L, W) == W[L.dep] \div L.pes
\* one process_field() call of DeserializerIOV for the leaf L whose wire word is w
StepLeaf(st, L, W) ==
  LET w == W[L.wi] IN
  IF L.dep # 0 /\ st.res[L.dep].where \notin {"in", "copy"}
  THEN \* element of an array whose claim did not deliver memory
       st
  ELSE IF L.dep # 0 /\ L.ei > ElemCount(L, W) THEN st
  ELSE IF Skipped(L)
  THEN \* nothing is done: the receiver sees the sender's pointer and lengths.  An iovec_array also carries the byte length of
       \* its iovec[]: non-zero iff it has elements (an honest one may have elements that are all empty)
       LET some == IF L.k = "aiov" /\ w = L.n THEN Len(L.lens) > 0 ELSE w > 0 IN
       [st EXCEPT !.res[L.wi] = IF some THEN R("wire", 0, w) ELSE R("empty", 0, 0)]
  ELSE IF L.k \in {"iov", "aiov"}
  THEN \* DeserializerIOV::process_field(iovec_array&): extract_front(summed_size, &view)   (serialize.h:446)
       IF w = 0 THEN [st EXCEPT !.res[L.wi] = [R("iov", 0, 0) EXCEPT !.pieces = <<>>]]
       ELSE IF SumEls(st.els) >= w
       THEN [st EXCEPT !.res[L.wi] = [R("iov", 0, w) EXCEPT !.pieces = PiecesFront(st.els, w)],
                       !.els = DropFront(st.els, w)]
       ELSE [st EXCEPT !.failed = TRUE, !.els = <<>>, !.res[L.wi] = R("null", 0, w)]   \* short: consumes what is there
  ELSE \* DeserializerIOV::process_field(buffer&)   (serialize.h:437)
       IF L.k = "fbuf" /\ ~KF_FixedLen /\ w # L.es
       THEN [st EXCEPT !.failed = TRUE, !.res[L.wi] = R("null", 0, w)]
       ELSE IF w = 0 THEN [st EXCEPT !.res[L.wi] = R("empty", 0, 0)]
       ELSE LET r == FrontCont(st.els, w) IN
            IF r.ok THEN [st EXCEPT !.els = r.els, !.res[L.wi] = R(r.where, r.pos, w)]
            ELSE [st EXCEPT !.failed = TRUE, !.res[L.wi] = R("null", 0, w),
                            \* as shipped: _len stays, so ArchiveBase walks w / sizeof(T) messages at address 0 (serialize.h:325)
                            !.crashed = @ \/ (KF_ArrayWalk /\ L.k = "arrm" /\ w \div L.es >= 1)]

RECURSIVE Run(_, _, _, _)
Run(ord, k, st, W) == IF k > Len(ord) THEN st ELSE Run(ord, k + 1, StepLeaf(st, ord[k], W), W)

\* a slice (offset is signed, length unsigned) lies inside a base buffer of B bytes
InB(off, len, B) == off >= 0 /\ len >= 0 /\ off + len <= B
\* a key is an rpc::string with its terminator (length >= 1: comparisons look at size()-1 bytes)
SliceOK(sl, B) == InB(sl[1], sl[2], B) /\ sl[2] >= 1 /\ InB(sl[3], sl[4], B)
\* index entries the receiver will look at: floor(wire index length / entry size)
MapIdxOf(dfs) == CHOOSE i \in 1..Len(dfs) : dfs[i].k = "idx"
HasMapOf(dfs) == \E i \in 1..Len(dfs) : dfs[i].k = "idx"
MapIdx(msg) == MapIdxOf(Dfs(msg))
HasMap(msg) == HasMapOf(Dfs(msg))
BadSlicesOf(dfs, W, SL) ==
  IF ~HasMapOf(dfs) THEN {}
  ELSE LET mi == MapIdxOf(dfs)  cnt == W[mi] \div dfs[mi].es  B == W[mi + 1] IN
       \* (entries beyond the known slices are bad; never enumerate a hostile count)
       {e \in 1..(IF cnt > Len(SL) THEN Len(SL) + 1 ELSE cnt) : e > Len(SL) \/ ~SliceOK(SL[e], B)}
BadSlices(msg, W, SL) == BadSlicesOf(Dfs(msg), W, SL)

InitStN(n, els) == [els |-> els, failed |-> FALSE, crashed |-> FALSE, res |-> [i \in 1..n |-> Unset]]
InitSt(msg, els) == InitStN(NW(msg), els)
\* what deserialize() does once every field has been visited (slices are validated by the repaired code only)
FinishOf(dfs, st, W, SL) ==
  IF ~KF_MapSlices /\ ~st.failed /\ ~st.crashed /\ BadSlicesOf(dfs, W, SL) # {} THEN [st EXCEPT !.failed = TRUE] ELSE st
Finish(msg, st, W, SL) == FinishOf(Dfs(msg), st, W, SL)
Outcome(st) == IF st.crashed THEN "crash" ELSE IF st.failed THEN "fail" ELSE "ok"

\* positions hashed by validate_checksum(): what is left in the iovector after the body was taken, then the body
Covered(els, bpos, S, p) == (~KF_Checksum /\ \E k \in 1..Len(els) : els[k].o <= p /\ p < els[k].o + els[k].n)
                            \/ (bpos <= p /\ p < bpos + S)

\* DeserializerIOV::deserialize<T>(iov): part = lengths of the iovec elements supplied; alt = position of a byte
\* that differs from what the sender produced, or -1 (the sender's checksum is over every byte it sent, with the
\* checksum field itself zero: add_checksum, serialize.h:261)
DeserC(cx, W, SL, part, alt) ==
  LET b == BackCont(PartEls(part), cx.S) IN      \* iov->extract_back<T>()
  IF ~b.ok THEN [out |-> "fail", body |-> R("null", 0, cx.S), res |-> <<>>]
  ELSE IF cx.ck /\ alt >= 0 /\ Covered(b.els, b.pos, cx.S, alt)             \* validate_checksum (serialize.h:266)
  THEN [out |-> "fail", body |-> R(b.where, b.pos, cx.S), res |-> <<>>]
  ELSE LET st == FinishOf(cx.dfs, Run(cx.ord, 1, InitStN(Len(cx.dfs), b.els), W), W, SL) IN
       [out |-> Outcome(st), body |-> R(b.where, b.pos, cx.S), res |-> st.res]
Deser(msg, W, SL, part, alt) == DeserC(Cx(msg), W, SL, part, alt)

(* ------------------------------------------------------------------ *)
(* reference: what C12 states, on any result (model or recorded)       *)
(* ------------------------------------------------------------------ *)
\* RoundTrip: every field of the received message is the sent field: same length, bytes = the bytes that the
\* sender's field occupies in the flat serialization (pointer or copy), iovec arrays compared as concatenation
RECURSIVE Consecutive(_, _, _)
Consecutive(pieces, k, pos) ==     \* pieces tile [pos, ...) in order (empty pieces anywhere)
  IF k > Len(pieces) THEN pos
  ELSE IF pieces[k].n = 0 THEN Consecutive(pieces, k + 1, pos)
  ELSE IF pieces[k].o # pos THEN -1 ELSE Consecutive(pieces, k + 1, pos + pieces[k].n)
FieldDelivered(L, r, sp) ==
  IF L.k \in {"iov", "aiov"}
  THEN r.where = "iov" /\ r.len = L.n /\ (L.n = 0 \/ Consecutive(r.pieces, 1, sp) = sp + L.n)
  ELSE IF L.n = 0 THEN r.where = "empty" /\ r.len = 0
  ELSE r.where \in {"in", "copy"} /\ r.len = L.n /\ (r.pos = sp \/ (r.where = "copy" /\ r.pos = -2))   \* -2: recorded copy whose source is ambiguous
RoundTripBadC(cx, d) ==       \* set of word indexes whose field did not arrive (0 = whole message refused)
  IF d.out # "ok" THEN {0}
  ELSE {i \in 1..Len(cx.dfs) : ~FieldDelivered(cx.dfs[i], d.res[i], cx.sp[i])}
RoundTripBad(msg, d) == RoundTripBadC(Cx(msg), d)
\* the same, phrased on byte ids (used by the model checker to show both formulations agree)
ContentIds(ids, r) == IF r.where \in {"in", "copy"} THEN SubSeq(ids, r.pos + 1, r.pos + r.len)
                      ELSE IF r.where = "iov" THEN
                        LET RECURSIVE C(_)  C(k) == IF k > Len(r.pieces) THEN <<>>
                               ELSE SubSeq(ids, r.pieces[k].o + 1, r.pieces[k].o + r.pieces[k].n) \o C(k + 1) IN C(1)
                      ELSE <<>>
RoundTripIdsOK(msg, d) ==
  LET dfs == Dfs(msg)  ids == FlatIds(msg) IN
  d.out = "ok" /\ \A i \in 1..Len(dfs) : d.res[i].where \in {"in", "copy", "iov", "empty"}
                                        /\ ContentIds(ids, d.res[i]) = [j \in 1..dfs[i].n |-> <<i, j>>]

\* HostileContained: failure, or every variable-length field lies inside the supplied bytes (one supplied
\* element, or a buffer of exactly that size made by the deserializer) and every map slice inside its base
InElement(els, pos, len) == \E k \in 1..Len(els) : els[k].o <= pos /\ pos + len <= els[k].o + els[k].n
ExtentOK(L, r, els) ==
  IF r.where = "iov" THEN \A k \in 1..Len(r.pieces) : r.pieces[k].n = 0 \/ InElement(els, r.pieces[k].o, r.pieces[k].n)
  ELSE IF r.where = "unset" THEN TRUE                       \* element beyond the received count: not part of the message
  ELSE LET need == IF L.k = "fbuf" THEN L.es ELSE r.len IN  \* a fixed_buffer<T> is read as a T
       IF r.where = "empty" THEN need = 0
       ELSE IF r.where = "in" THEN r.len >= need /\ InElement(els, r.pos, r.len)
       ELSE IF r.where = "copy" THEN r.len >= need
       ELSE FALSE                                           \* "null" / "wire" with a non-zero length
HostileBadC(cx, W, SL, part, d) ==     \* set of problems; {} = contained
  IF d.out = "crash" THEN {"crash"}
  ELSE IF d.out = "fail" THEN {}
  ELSE LET dfs == cx.dfs  els == PartEls(part) IN
       {<<"field", i>> : i \in {j \in 1..Len(dfs) : ~ExtentOK(dfs[j], d.res[j], els)}}
       \cup {<<"slice", e>> : e \in BadSlicesOf(dfs, W, SL)}
HostileBad(msg, W, SL, part, d) == HostileBadC(Cx(msg), W, SL, part, d)

=============================================================================
