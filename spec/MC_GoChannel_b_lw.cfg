\* buffered, only the late waiter registration as written: must violate ReleasedWhenPartnerExists (lost wake-up)
SPECIFICATION Spec
CONSTANTS
  Cap = 1
  S = {"s1", "s2"}
  R = {"r1", "r2"}
  NV = 1
  NR = 1
  SKinds = {"inf"}
  RKinds = {"inf"}
  WithClose = FALSE
  KF = {"LW"}
INVARIANTS TypeOK DeliveredExactlyOnce PerSenderOrder FalseOnlyOnCloseOrTimeout DrainAfterClose ReleasedWhenPartnerExists ReleasedOnClose
CHECK_DEADLOCK FALSE
