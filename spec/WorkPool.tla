---- MODULE WorkPool ----
(* C08: photon::WorkPool (thread/workerpool.cpp, thread/workerpool.h, thread/awaiter.h) dispatching through the ring      *)
(* channel of common/lockfree_queue.h.  One action per critical section / atomic operation / blocking point:               *)
(*   ring     bounded FIFO of task ids and stop markers (0).  push / pop are the atomic operations of the MPMC ring, taken  *)
(*            as an atomic FIFO (C07); a full ring makes the sender retry (every back-off in RingChannel::send is a retry   *)
(*            loop with timed waits, so "blocked" = "the push step is not enabled"), an empty ring makes the receiver yield *)
(*            or sleep on a timed semaphore wait (so it re-polls: it may re-enter the run queue at any time).               *)
(*   submitters   call(): push the wrapper task (a lambda in the caller's frame), suspend on the awaiter (photon semaphore / *)
(*            std::promise), return;  async_call(): push the owning task, return.                                           *)
(*   workers  one OS thread = one vCPU each, with a cooperative run queue exactly as thread.cpp keeps it (circular list,     *)
(*            rq[w][1] is the running thread; thread_yield rotates; thread_create appends; thread_yield_to(th) puts th in     *)
(*            front and the caller right behind it; a sleeping thread leaves the queue and is appended when woken).           *)
(*            main_loop (thread 0): recv -> marker: leave the loop | task: running++, fill the stack record `tasklb`;         *)
(*            mode -1: delegate_helper inline;  mode 0: thread_create(&delegate_helper, &tasklb); thread_yield_to(th);        *)
(*            mode >0: same through the per-worker thread pool (an idle pooled thread is woken, otherwise a new one is made;  *)
(*            after the task it parks in the pool or, if the pool is full, is destroyed - which yields once while it still     *)
(*            holds a reference on the pool).  delegate_helper: COPY *arg, run the task, running--.                           *)
(*            After the loop: wait running == 0 (yielding), delete the thread pool (waits for its references), deregister,    *)
(*            photon::fini, OS thread ends.  External workers (join_current_vcpu_into_workpool) only deregister.              *)
(*            (vcpu_fini itself waits for every thread still alive on the vCPU; the model does not use that second net: DExit    *)
(*            is immediate, so DestructorWaits rests on the running_tasks wait alone - as it must for external workers.)        *)
(*   destructor   n = #registered workers; n stop markers; join the owned OS threads; wait until no worker is registered;     *)
(*            destroy the ring.  It is called after every submission has returned (the API's contract), i.e. while tasks may   *)
(*            still be queued or running.                                                                                     *)
(* Ghosts: runs, finished, deleted, returned, accepted, arg (the task a helper thread was created for), bad (set of faults).   *)
(* The dispatcher's record lives in one loop iteration: it is alive while the dispatcher is suspended in thread_yield_to       *)
(* (pc "loop"), dead as soon as the dispatcher runs again, and refilled by the next recv.                                     *)
(* Variant: "none" = the code as it is; the others are deliberately broken witnesses (each must violate a property).          *)
EXTENDS Naturals, Integers, Sequences, FiniteSets, TLC
CONSTANTS Workers, External, RingCap, PoolCap, NH, Subs, Bodies, Cfgs
\* One TLC run covers a set of configurations: Cfgs is a set of records made with MkCfg(mode, variant, prog); Init picks one (cf)
\* and it never changes.   mode \in {"inline", "thread", "pooled"};
\* prog[s] = sequence of [op |-> "call"|"async", t |-> task id >= 1, ctx |-> "photon"|"std"|"none"]
\* NH helper-thread slots per worker (>= number of tasks);  Bodies \subseteq {"plain", "yield", "sleep"}
OpsOf(p) == UNION {{p[s][i] : i \in 1..Len(p[s])} : s \in DOMAIN p}
MkCfg(m, v, p) == [mode |-> m, variant |-> v, prog |-> p,
                   ops |-> [t \in {o.t : o \in OpsOf(p)} |-> CHOOSE o \in OpsOf(p) : o.t = t]]
TH == 0..NH                         \* 0 = the worker's main_loop thread (dispatcher), 1..NH helper threads
Owned == Workers \ External
VARIABLES cf, ring, ringAlive, vcpus, spc, aw, returned, accepted, runs, finished, deleted,
          pc, rq, slp, tk, arg, rec, running, got, exited, pref, dpc, dn, bad
vars == <<cf, ring, ringAlive, vcpus, spc, aw, returned, accepted, runs, finished, deleted,
          pc, rq, slp, tk, arg, rec, running, got, exited, pref, dpc, dn, bad>>
subv == <<spc, aw, returned, accepted>>
ghostv == <<runs, finished, deleted>>
dtorv == <<dpc, dn>>
Mode == cf.mode
Variant == cf.variant
Prog == cf.prog
Tasks == DOMAIN cf.ops
OpOf(t) == cf.ops[t]
IsCall(t) == cf.ops[t].op = "call"

Init == /\ cf \in Cfgs /\ TLCSet(2, {}) /\ TLCSet(3, {})          \* registers 2, 3: witness / reachability records (see the end)
        /\ ring = <<>> /\ ringAlive = TRUE /\ vcpus = Workers
        /\ spc = [s \in Subs |-> [i |-> 1, ph |-> "enq"]]
        /\ aw = [t \in Tasks |-> 0] /\ returned = [t \in Tasks |-> FALSE] /\ accepted = {}
        /\ runs = [t \in Tasks |-> 0] /\ finished = [t \in Tasks |-> FALSE] /\ deleted = [t \in Tasks |-> 0]
        /\ pc = [w \in Workers |-> [x \in TH |-> IF x = 0 THEN "recv" ELSE "free"]]
        /\ rq = [w \in Workers |-> <<0>>] /\ slp = [w \in Workers |-> {}]
        /\ tk = [w \in Workers |-> [x \in TH |-> 0]] /\ arg = [w \in Workers |-> [x \in TH |-> 0]]
        /\ rec = [w \in Workers |-> 0] /\ running = [w \in Workers |-> 0] /\ got = [w \in Workers |-> 0]
        /\ exited = [w \in Workers |-> FALSE] /\ pref = [w \in Workers |-> 0]
        /\ dpc = "wait" /\ dn = 0 /\ bad = {}

(* ---------------- the cooperative run queue of one vCPU ---------------- *)
IsCur(w, x) == rq[w] # <<>> /\ Head(rq[w]) = x
Rotate(q) == Tail(q) \o <<Head(q)>>                                  \* thread_yield: goto_next
Without(q, x) == SelectSeq(q, LAMBDA y : y # x)
GotoFront(q, h) == <<h, Head(q)>> \o Without(Tail(q), h)             \* thread_yield_to(h): try_goto = insert h before current, switch
Goto(w, x, s) == pc' = [pc EXCEPT ![w][x] = s]
SetRq(w, q) == rq' = [rq EXCEPT ![w] = q]
Fault(f) == bad' = bad \cup {f}
Min(S) == CHOOSE x \in S : \A y \in S : x <= y
Idle(w) == {h \in 1..NH : pc[w][h] = "idle"}
Free(w) == {h \in 1..NH : pc[w][h] = "free"}

(* ---------------- submitters ---------------- *)
SDone(s) == spc[s].i > Len(Prog[s])
SOp(s) == Prog[s][spc[s].i]
\* RingChannel::send: push (retry while full), then the wake-up of idle receivers (covered by the receivers' timed waits)
SubEnqueue(s) ==
  /\ ~SDone(s) /\ spc[s].ph = "enq" /\ Len(ring) < RingCap
  /\ LET o == SOp(s) IN
     /\ ring' = Append(ring, o.t) /\ accepted' = accepted \cup {o.t}
     /\ spc' = [spc EXCEPT ![s] = IF o.op = "call" THEN [i |-> @.i, ph |-> "susp"] ELSE [i |-> @.i + 1, ph |-> "enq"]]
  /\ IF ringAlive THEN UNCHANGED bad ELSE Fault("send on a destroyed ring")
  /\ UNCHANGED <<ringAlive, vcpus, aw, returned, ghostv, pc, rq, slp, tk, arg, rec, running, got, exited, pref, dtorv>>
\* Awaiter::suspend returns once resume() was called; do_call returns: the wrapper lambda and the awaiter (caller's frame) are gone
SubSuspend(s) ==
  /\ ~SDone(s) /\ spc[s].ph = "susp"
  /\ LET t == SOp(s).t IN
     /\ aw[t] >= 1 /\ aw' = [aw EXCEPT ![t] = @ - 1] /\ returned' = [returned EXCEPT ![t] = TRUE]
  /\ spc' = [spc EXCEPT ![s] = [i |-> @.i + 1, ph |-> "enq"]]
  /\ UNCHANGED <<ring, ringAlive, vcpus, accepted, ghostv, pc, rq, slp, tk, arg, rec, running, got, exited, pref, dtorv, bad>>

(* ---------------- ~impl ---------------- *)
DtorBegin == /\ dpc = "wait" /\ \A s \in Subs : SDone(s)
             /\ LET n == IF Variant = "marker_short" /\ vcpus # {} THEN Cardinality(vcpus) - 1 ELSE Cardinality(vcpus) IN
                dn' = n /\ dpc' = IF n = 0 THEN "join" ELSE "markers"
             /\ UNCHANGED <<ring, ringAlive, vcpus, subv, ghostv, pc, rq, slp, tk, arg, rec, running, got, exited, pref, bad>>
DtorSend == /\ dpc = "markers" /\ dn > 0 /\ Len(ring) < RingCap
            /\ ring' = Append(ring, 0) /\ dn' = dn - 1 /\ dpc' = IF dn = 1 THEN "join" ELSE "markers"
            /\ UNCHANGED <<ringAlive, vcpus, subv, ghostv, pc, rq, slp, tk, arg, rec, running, got, exited, pref, bad>>
DtorJoin == /\ dpc = "join" /\ \A w \in Owned : exited[w] /\ dpc' = "dereg"
            /\ UNCHANGED <<ring, ringAlive, vcpus, subv, ghostv, pc, rq, slp, tk, arg, rec, running, got, exited, pref, dn, bad>>
\* while (vcpus.size()) yield;  worker_lock.lock();  destroy(ring)
DtorDestroy == /\ dpc = "dereg" /\ vcpus = {} /\ ringAlive' = FALSE /\ dpc' = "done"
               /\ UNCHANGED <<ring, vcpus, subv, ghostv, pc, rq, slp, tk, arg, rec, running, got, exited, pref, dn, bad>>

(* ---------------- delegate_helper, run by thread x of worker w (x = 0: inline in main_loop) ---------------- *)
\* Steps of one vCPU that no other actor can observe are merged with the step before them: a thread's step runs from one
\* blocking point / context switch to the next.  A task body that does not block therefore runs, resumes its awaiter or deletes its
\* functor, decrements running_tasks and ends its thread in ONE step (exactly one effect is visible outside the vCPU).
\* the task starts: the wrapper lambda of a call() lives in the caller's frame, the functor of an async_call() on the heap
StartFaults(t) == (IF IsCall(t) /\ returned[t] THEN {"wrapper task used after call() returned"} ELSE {})
                  \cup (IF ~IsCall(t) /\ deleted[t] > 0 THEN {"async task object used after delete"} ELSE {})
EarlyResume(t) == Variant = "resume_early" /\ IsCall(t)
StartAw(t) == IF EarlyResume(t) THEN [aw EXCEPT ![t] = @ + 1] ELSE aw
\* the task returned: call(): aop.resume() (semaphore::signal / promise::set_value; a second set_value throws); async_call(): delete
EndAw(t) == IF IsCall(t) /\ ~EarlyResume(t) THEN [aw EXCEPT ![t] = @ + 1] ELSE aw
EndDeleted(t) == IF ~IsCall(t) /\ Variant # "no_delete" THEN [deleted EXCEPT ![t] = @ + 1] ELSE deleted
EndFaults(t) == IF IsCall(t)
                THEN (IF returned[t] THEN {"awaiter used after call() returned"} ELSE {})
                     \cup (IF OpOf(t).ctx = "std" /\ ~EarlyResume(t) /\ (aw[t] >= 1 \/ returned[t]) THEN {"promise satisfied twice"} ELSE {})
                ELSE (IF deleted[t] > 0 THEN {"async task object deleted twice"} ELSE {})
\* after *tasklb.count -= 1: main_loop continues (mode -1) / the thread ends (mode 0) / it goes back to its pool (mode > 0): parked
\* in wait_for_work if the pool has room, else IdentityPool::put -> dtor(own ctrl) -> thread_yield() with the pool reference still held
After(w, x) == IF x = 0 THEN <<"recv", rq[w], pref[w]>>
               ELSE IF Mode = "thread" THEN <<"free", Tail(rq[w]), pref[w]>>
               ELSE IF Cardinality(Idle(w)) < PoolCap THEN <<"idle", Tail(rq[w]), pref[w] - 1>>
               ELSE <<"dying", Rotate(rq[w]), pref[w]>>
Leave(w, x) == LET a == After(w, x) IN /\ pc' = [pc EXCEPT ![w][x] = a[1]] /\ rq' = [rq EXCEPT ![w] = a[2]]
                                       /\ pref' = [pref EXCEPT ![w] = a[3]]
\* first step of a helper thread: TaskLB tasklb = *(TaskLB*)arg; tasklb.task() runs up to its first blocking point (or to its end).
\* The dispatcher's record is alive only while the dispatcher is suspended inside its loop iteration (pc "loop").
HStart(w, h, k) ==
  /\ h # 0 /\ IsCur(w, h) /\ pc[w][h] = (IF Variant = "late_copy" THEN "new2" ELSE "new") /\ k \in Bodies
  /\ LET t == IF pc[w][0] = "loop" THEN rec[w] ELSE 0
         sf == (IF t # arg[w][h] THEN {"helper copied a record that was refilled"} ELSE {}) \cup StartFaults(t) IN
     IF t = 0 THEN /\ k = "plain" /\ Fault("helper copied a dead record") /\ Goto(w, h, "free") /\ SetRq(w, Tail(rq[w]))
                   /\ UNCHANGED <<runs, tk, aw, finished, deleted, running, pref, slp>>
     ELSE /\ runs' = [runs EXCEPT ![t] = @ + 1]
          /\ CASE k = "plain" -> /\ finished' = [finished EXCEPT ![t] = TRUE] /\ deleted' = EndDeleted(t)
                                 /\ aw' = IF IsCall(t) THEN [aw EXCEPT ![t] = @ + 1] ELSE aw
                                 /\ bad' = bad \cup sf \cup EndFaults(t)
                                 /\ running' = [running EXCEPT ![w] = @ - 1] /\ Leave(w, h) /\ UNCHANGED <<tk, slp>>
              [] k = "yield" -> /\ tk' = [tk EXCEPT ![w][h] = t] /\ aw' = StartAw(t) /\ bad' = bad \cup sf
                                 /\ Goto(w, h, "run2") /\ SetRq(w, Rotate(rq[w])) /\ UNCHANGED <<finished, deleted, running, pref, slp>>
              [] k = "sleep" -> /\ tk' = [tk EXCEPT ![w][h] = t] /\ aw' = StartAw(t) /\ bad' = bad \cup sf
                                 /\ Goto(w, h, "run2") /\ SetRq(w, Tail(rq[w])) /\ slp' = [slp EXCEPT ![w] = @ \cup {h}]
                                 /\ UNCHANGED <<finished, deleted, running, pref>>
  /\ UNCHANGED <<ring, ringAlive, vcpus, spc, returned, accepted, arg, rec, got, exited, dtorv>>
\* witness "late_copy": the helper gives the CPU away once before it copies
HLateYield(w, h) ==
  /\ Variant = "late_copy" /\ h # 0 /\ IsCur(w, h) /\ pc[w][h] = "new"
  /\ Goto(w, h, "new2") /\ SetRq(w, Rotate(rq[w]))
  /\ UNCHANGED <<ring, ringAlive, vcpus, subv, ghostv, slp, tk, arg, rec, running, got, exited, pref, dtorv, bad>>
\* back from the yield / sleep: the body returns; resume or delete; running_tasks--; the thread leaves
HEnd(w, x) ==
  /\ IsCur(w, x) /\ pc[w][x] = "run2"
  /\ LET t == tk[w][x] IN
     /\ finished' = [finished EXCEPT ![t] = TRUE] /\ aw' = EndAw(t) /\ deleted' = EndDeleted(t) /\ bad' = bad \cup EndFaults(t)
  /\ running' = [running EXCEPT ![w] = @ - 1] /\ tk' = [tk EXCEPT ![w][x] = 0] /\ Leave(w, x)
  /\ UNCHANGED <<ring, ringAlive, vcpus, spc, returned, accepted, runs, slp, arg, rec, got, exited, dtorv>>
\* back from the yield inside ThreadPoolBase::dtor: --m_refcnt, notify; wait_for_work sees the stub marker, the thread ends
HDie(w, h) ==
  /\ IsCur(w, h) /\ pc[w][h] = "dying"
  /\ pref' = [pref EXCEPT ![w] = @ - 1] /\ Goto(w, h, "free") /\ SetRq(w, Tail(rq[w]))
  /\ UNCHANGED <<ring, ringAlive, vcpus, subv, ghostv, slp, tk, arg, rec, running, got, exited, dtorv, bad>>
\* timer expiry / semaphore signal / timed wait elapsed: a sleeping thread is appended to the run queue
Wake(w, x) ==
  /\ x \in slp[w] /\ slp' = [slp EXCEPT ![w] = @ \ {x}] /\ SetRq(w, Append(rq[w], x))
  /\ UNCHANGED <<ring, ringAlive, vcpus, subv, ghostv, pc, tk, arg, rec, running, got, exited, pref, dtorv, bad>>

(* ---------------- main_loop (thread 0 of worker w) ---------------- *)
\* "loop" = suspended in thread_yield_to inside a loop iteration; when the dispatcher runs again the iteration (and `tasklb`) ends
AtRecv(w) == pc[w][0] \in {"recv", "loop"}
RingFault == IF ringAlive THEN {} ELSE {"recv on a destroyed ring"}
\* ring->recv: pop succeeded.  marker: leave the loop.  task: running++, fill the record; mode -1: delegate_helper inline (k = how the
\* body behaves), else the helper thread is made in the next step (DSpawn)
DRecv(w, k) ==
  /\ IsCur(w, 0) /\ AtRecv(w) /\ ring # <<>> /\ (IF Mode = "inline" /\ Head(ring) # 0 THEN k \in Bodies ELSE k = "plain")
  /\ ring' = Tail(ring)
  /\ LET x == Head(ring) IN
     IF x = 0 THEN /\ got' = [got EXCEPT ![w] = @ + 1] /\ Goto(w, 0, "drain") /\ bad' = bad \cup RingFault
                   /\ UNCHANGED <<running, rec, runs, tk, aw, finished, deleted, rq, slp>>
     ELSE IF Mode # "inline"
     THEN /\ running' = [running EXCEPT ![w] = @ + 1] /\ rec' = [rec EXCEPT ![w] = x] /\ Goto(w, 0, "spawn")
          /\ bad' = bad \cup RingFault /\ UNCHANGED <<got, runs, tk, aw, finished, deleted, rq, slp>>
     ELSE /\ rec' = [rec EXCEPT ![w] = x] /\ runs' = [runs EXCEPT ![x] = @ + 1] /\ UNCHANGED got
          /\ CASE k = "plain" -> /\ finished' = [finished EXCEPT ![x] = TRUE] /\ deleted' = EndDeleted(x)
                                 /\ aw' = IF IsCall(x) THEN [aw EXCEPT ![x] = @ + 1] ELSE aw
                                 /\ bad' = bad \cup RingFault \cup StartFaults(x) \cup EndFaults(x)
                                 /\ Goto(w, 0, "recv") /\ UNCHANGED <<running, tk, rq, slp>>
              [] k = "yield" -> /\ running' = [running EXCEPT ![w] = @ + 1] /\ tk' = [tk EXCEPT ![w][0] = x] /\ aw' = StartAw(x)
                                 /\ bad' = bad \cup RingFault \cup StartFaults(x)
                                 /\ Goto(w, 0, "run2") /\ SetRq(w, Rotate(rq[w])) /\ UNCHANGED <<finished, deleted, slp>>
              [] k = "sleep" -> /\ running' = [running EXCEPT ![w] = @ + 1] /\ tk' = [tk EXCEPT ![w][0] = x] /\ aw' = StartAw(x)
                                 /\ bad' = bad \cup RingFault \cup StartFaults(x)
                                 /\ Goto(w, 0, "run2") /\ SetRq(w, Tail(rq[w])) /\ slp' = [slp EXCEPT ![w] = @ \cup {0}]
                                 /\ UNCHANGED <<finished, deleted>>
  /\ UNCHANGED <<ringAlive, vcpus, spc, returned, accepted, arg, exited, pref, dtorv>>
\* ring->recv: nothing there: yield (spin turns) ...
DRecvYield(w) ==
  /\ IsCur(w, 0) /\ AtRecv(w) /\ ring = <<>> /\ Len(rq[w]) > 1
  /\ SetRq(w, Rotate(rq[w])) /\ Goto(w, 0, "recv")
  /\ UNCHANGED <<ring, ringAlive, vcpus, subv, ghostv, slp, tk, arg, rec, running, got, exited, pref, dtorv, bad>>
\* ... or queue_sem.wait(1, 100 ms): leaves the run queue; Wake brings it back (signal or time-out, so at any time)
DRecvSleep(w) ==
  /\ IsCur(w, 0) /\ AtRecv(w) /\ ring = <<>>
  /\ SetRq(w, Tail(rq[w])) /\ slp' = [slp EXCEPT ![w] = @ \cup {0}] /\ Goto(w, 0, "recv")
  /\ UNCHANGED <<ring, ringAlive, vcpus, subv, ghostv, tk, arg, rec, running, got, exited, pref, dtorv, bad>>
\* thread_create(&delegate_helper, &tasklb) / pool->thread_create(...), then thread_yield_to(th)
DSpawn(w) ==
  /\ IsCur(w, 0) /\ pc[w][0] = "spawn"
  /\ LET h == IF Mode = "pooled" /\ Idle(w) # {} THEN Min(Idle(w)) ELSE Min(Free(w)) IN
     /\ arg' = [arg EXCEPT ![w][h] = rec[w]]
     /\ pc' = [pc EXCEPT ![w][h] = "new", ![w][0] = "loop"]
     /\ pref' = IF Mode = "pooled" THEN [pref EXCEPT ![w] = @ + 1] ELSE pref
     /\ SetRq(w, IF Variant = "no_yield_to" THEN Append(rq[w], h) ELSE GotoFront(Append(rq[w], h), h))
  /\ UNCHANGED <<ring, ringAlive, vcpus, subv, ghostv, slp, tk, rec, running, got, exited, dtorv, bad>>
\* while (running_tasks) thread_yield();   ~IdentityPool waits for its references the same way
Drained(w) == Variant = "no_drain" \/ (running[w] = 0 /\ pref[w] = 0)
DDrainYield(w) ==
  /\ IsCur(w, 0) /\ pc[w][0] = "drain" /\ ~Drained(w) /\ Len(rq[w]) > 1
  /\ SetRq(w, Rotate(rq[w]))
  /\ UNCHANGED <<ring, ringAlive, vcpus, subv, ghostv, pc, slp, tk, arg, rec, running, got, exited, pref, dtorv, bad>>
\* delete_thread_pool (idle pooled threads are told to end and do), then remove_vcpu() under worker_lock
DDereg(w) ==
  /\ IsCur(w, 0) /\ pc[w][0] = "drain" /\ Drained(w)
  /\ pc' = [pc EXCEPT ![w] = [x \in TH |-> IF x = 0 THEN "fini" ELSE IF pc[w][x] = "idle" THEN "free" ELSE pc[w][x]]]
  /\ vcpus' = vcpus \ {w}
  /\ UNCHANGED <<ring, ringAlive, subv, ghostv, rq, slp, tk, arg, rec, running, got, exited, pref, dtorv, bad>>
\* photon::fini, the OS thread ends (owned workers) / join_current_vcpu_into_workpool returns (external workers)
DExit(w) ==
  /\ IsCur(w, 0) /\ pc[w][0] = "fini"
  /\ Goto(w, 0, "gone") /\ exited' = [exited EXCEPT ![w] = TRUE]
  /\ UNCHANGED <<ring, ringAlive, vcpus, subv, ghostv, rq, slp, tk, arg, rec, running, got, pref, dtorv, bad>>

Finished == dpc = "done" /\ UNCHANGED <<ring, ringAlive, vcpus, subv, ghostv, pc, rq, slp, tk, arg, rec, running, got, exited, pref, dtorv, bad>>
WorkerNext(w) == \/ DRecvYield(w) \/ DRecvSleep(w) \/ DSpawn(w) \/ DDrainYield(w) \/ DDereg(w) \/ DExit(w)
                 \/ \E k \in Bodies \cup {"plain"} : DRecv(w, k)
                 \/ \E x \in TH : \/ HLateYield(w, x) \/ HEnd(w, x) \/ HDie(w, x) \/ Wake(w, x) \/ \E k \in Bodies : HStart(w, x, k)
Next == /\ \/ \E s \in Subs : SubEnqueue(s) \/ SubSuspend(s)
           \/ DtorBegin \/ DtorSend \/ DtorJoin \/ DtorDestroy
           \/ \E w \in Workers : WorkerNext(w)
           \/ Finished
        /\ UNCHANGED cf
Spec == Init /\ [][Next]_vars
K(A) == A /\ UNCHANGED cf
FairSpec == /\ Spec /\ \A s \in Subs : WF_vars(K(SubEnqueue(s) \/ SubSuspend(s)))
            /\ WF_vars(K(DtorBegin \/ DtorSend \/ DtorJoin \/ DtorDestroy))
            /\ \A w \in Workers : WF_vars(K(WorkerNext(w))) /\ \A x \in TH : WF_vars(K(Wake(w, x)))

(* ---------------- properties ---------------- *)
NoFault == bad = {}
RunsExactlyOnce == /\ \A t \in Tasks : runs[t] <= 1 /\ (finished[t] => runs[t] = 1) /\ (runs[t] = 1 => t \in accepted)
                   /\ (dpc = "done" => \A t \in accepted : runs[t] = 1)
CallReturnsAfterFinish == \A t \in Tasks : returned[t] => (IsCall(t) /\ finished[t] /\ runs[t] = 1)
AsyncDeletedOnceAfterRun == /\ \A t \in Tasks : deleted[t] <= 1 /\ (deleted[t] = 1 => ~IsCall(t) /\ finished[t])
                            /\ (dpc = "done" => \A t \in accepted : ~IsCall(t) => deleted[t] = 1)
RecordCopiedBeforeReuse == /\ "helper copied a dead record" \notin bad /\ "helper copied a record that was refilled" \notin bad
                           /\ \A w \in Workers, h \in 1..NH : pc[w][h] = "run2" => tk[w][h] = arg[w][h]
DestructorWaits == ~ringAlive => /\ \A t \in accepted : finished[t] /\ (IsCall(t) \/ deleted[t] = 1)
                                 /\ \A w \in Workers : pc[w][0] \in {"fini", "gone"} /\ running[w] = 0
                                 /\ \A w \in Owned : exited[w]
EveryWorkerGetsOneMarker == /\ \A w \in Workers : got[w] <= 1 /\ (pc[w][0] \in {"drain", "fini", "gone"} <=> got[w] = 1)
                            /\ (dpc = "done" => \A w \in Workers : got[w] = 1)
RingBounded == Len(ring) <= RingCap
RunningCounts == \A w \in Workers : running[w] = Cardinality({x \in TH : pc[w][x] \in {"new", "new2", "run2"}})
                                                 + (IF pc[w][0] \in {"spawn"} THEN 1 ELSE 0)
\* deadlock freedom.  Receivers poll (timed waits), so a stuck system still has polling steps; "at rest" = nothing but polling is
\* possible: every submitter is finished or blocked, the destructor cannot move, every worker has left or polls an empty ring and
\* has no helper thread with work.  Then the destructor must have finished.
AtRest == /\ \A s \in Subs : SDone(s) \/ (spc[s].ph = "enq" /\ Len(ring) >= RingCap) \/ (spc[s].ph = "susp" /\ aw[SOp(s).t] = 0)
          /\ ~ENABLED (DtorBegin \/ DtorSend \/ DtorJoin \/ DtorDestroy)
          /\ \A w \in Workers : /\ \A h \in 1..NH : pc[w][h] \in {"free", "idle"}
                                 /\ (pc[w][0] = "gone" \/ (AtRecv(w) /\ ring = <<>>) \/ (pc[w][0] = "drain" /\ ~Drained(w)))
NoStuck == AtRest => dpc = "done"
Terminates == <>(dpc = "done")
(* ---------------- anti-vacuity, recorded in TLC registers (run with ONE worker), printed by the postcondition ---------------- *)
\* witness run (Cfgs = deliberately broken variants): which property is violated under which variant.  Used as CONSTRAINT: a state that
\* violates something is recorded and not explored further.
PropNames == {"NoFault", "RunsExactlyOnce", "CallReturnsAfterFinish", "AsyncDeletedOnceAfterRun", "RecordCopiedBeforeReuse",
              "DestructorWaits", "EveryWorkerGetsOneMarker", "NoStuck", "RunningCounts"}
Holds(n) == CASE n = "NoFault" -> NoFault [] n = "RunsExactlyOnce" -> RunsExactlyOnce
              [] n = "CallReturnsAfterFinish" -> CallReturnsAfterFinish [] n = "AsyncDeletedOnceAfterRun" -> AsyncDeletedOnceAfterRun
              [] n = "RecordCopiedBeforeReuse" -> RecordCopiedBeforeReuse [] n = "DestructorWaits" -> DestructorWaits
              [] n = "EveryWorkerGetsOneMarker" -> EveryWorkerGetsOneMarker [] n = "NoStuck" -> NoStuck
              [] n = "RunningCounts" -> RunningCounts
\* the property each broken variant attacks
Attacked(v) == CASE v \in {"late_copy", "no_yield_to"} -> {"RecordCopiedBeforeReuse"}
                 [] v = "no_drain" -> {"DestructorWaits"}
                 [] v = "resume_early" -> {"CallReturnsAfterFinish"}
                 [] v = "marker_short" -> {"NoStuck"}
                 [] v = "no_delete" -> {"AsyncDeletedOnceAfterRun"}
                 [] OTHER -> PropNames
WitnessRecord == LET v == {n \in Attacked(cf.variant) : ~Holds(n)} IN
                 IF v = {} THEN TRUE ELSE TLCSet(2, TLCGet(2) \cup {<<cf.variant, cf.mode, n>> : n \in v}) /\ FALSE
WitnessPost == PrintT(<<"WITNESS", TLCGet(2)>>)
\* reachability in the runs of the code as it is: the situations the property is about do occur in the model
Reached == {r \in {"full_ring", "dtor_while_running", "two_helpers", "pool_overflow", "helper_pending_other_running", "sleeping_at_dtor",
                   "marker_blocked_by_full_ring", "pooled_thread_reused"} :
            CASE r = "full_ring" -> Len(ring) = RingCap /\ \E s \in Subs : ~SDone(s) /\ spc[s].ph = "enq"
              [] r = "dtor_while_running" -> dpc = "markers" /\ \E w \in Workers : running[w] > 0
              [] r = "two_helpers" -> \E w \in Workers : Cardinality({h \in 1..NH : pc[w][h] = "run2"}) >= 2
              [] r = "pool_overflow" -> \E w \in Workers, h \in 1..NH : pc[w][h] = "dying"
              [] r = "helper_pending_other_running" -> \E w \in Workers, h, k \in 1..NH : pc[w][h] = "new" /\ pc[w][k] = "run2"
              [] r = "sleeping_at_dtor" -> dpc \in {"markers", "join"} /\ \E w \in Workers : \E x \in slp[w] : pc[w][x] = "run2"
              [] r = "marker_blocked_by_full_ring" -> dpc = "markers" /\ Len(ring) = RingCap
              [] r = "pooled_thread_reused" -> \E w \in Workers : pc[w][0] = "spawn" /\ Idle(w) # {}}
ReachRecord == TLCSet(3, TLCGet(3) \cup {<<cf.mode, r>> : r \in Reached})
ReachPost == PrintT(<<"REACHED", TLCGet(3)>>)
====
