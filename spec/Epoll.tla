---- MODULE Epoll ----
(* C10, part 2: the level-triggered one-shot event engine of io/epoll.cpp (EventEngineEPoll) at the granularity of one     *)
(* action per uninterrupted piece of library code on one vCPU (photon threads switch only where they sleep) and one action  *)
(* per kernel step.                                                                                                        *)
(*   interests[fd]  entry.interests  (subset of {R, W, OS})          wdata[fd][d]  reader_data / writer_data (the waiter)     *)
(*   kreg[fd]       the kernel's registration {mask, armed}: EPOLLONESHOT clears `armed` when an event for the fd is      *)
(*                  delivered, EPOLL_CTL_MOD / ADD sets it                                                                 *)
(*   batch          _events[0.._events_remain): events fetched by epoll_wait and not yet fired (fired from the end)       *)
(*   ready[fd]      the kernel's view of the socket (environment)                                                          *)
(* wait_for_fd = add_interest (ADD, or MOD with the merged mask; MOD -> ENOENT -> ADD) + sleep; afterwards: woken by an     *)
(* event -> 0; by expiry or interrupt -> rm_interest of the own direction (no epoll_ctl when only ONE_SHOT remains, MOD     *)
(* with the remaining direction otherwise) and -1.  wait_and_fire_events = epoll_wait (<= B events) + for each event, per   *)
(* direction, wake the registered waiter if the interest is still there, then one-shot removal of the fired directions.    *)
EXTENDS Naturals, Integers, Sequences, FiniteSets, TLC
CONSTANTS FDS, Threads, B,
          AtomicDrain,   \* TRUE: a fetched batch is fired completely before any photon thread runs (wait_and_fire_events as written)
          Closes,        \* close() of an idle descriptor (removes the registration; the number is reused)
          Bug            \* "none" | "norearm" | "delall" | "nocheck"
D == {"R", "W"}
None == "none"
NoReg == [mask |-> {}, armed |-> FALSE, exists |-> FALSE]
VARIABLES ready, kreg, interests, wdata, batch, th, crash, addfail
vars == <<ready, kreg, interests, wdata, batch, th, crash, addfail>>
Idle == [pc |-> "idle", fd |-> None, dir |-> None, reason |-> None, by |-> <<>>, res |-> 0]
Init == /\ ready = [f \in FDS |-> {}] /\ kreg = [f \in FDS |-> NoReg] /\ interests = [f \in FDS |-> {}]
        /\ wdata = [f \in FDS |-> [d \in D |-> None]] /\ batch = <<>> /\ th = [t \in Threads |-> Idle]
        /\ crash = FALSE /\ addfail = FALSE
LibMayRun == AtomicDrain => batch = <<>>

(* ---- add_interest({fd, d | ONE_SHOT, t}) followed by thread_usleep ---- *)
StartWait(t, f, d) ==
    /\ LibMayRun /\ th[t].pc = "idle"
    /\ \A u \in Threads : ~(th[u].pc # "idle" /\ th[u].fd = f /\ th[u].dir = d)        \* one waiter per descriptor and direction
    /\ LET eint == interests[f]
           new  == eint \cup {d, "OS"}
           isadd == eint = {}
           \* ADD fails with EEXIST on an existing registration; MOD falls back to ADD on ENOENT
           fail == isadd /\ kreg[f].exists IN
       IF fail THEN /\ addfail' = TRUE /\ UNCHANGED <<ready, kreg, interests, wdata, batch, th, crash>>
       ELSE /\ kreg' = [kreg EXCEPT ![f] = [mask |-> new \cap D, armed |-> TRUE, exists |-> TRUE]]
            /\ interests' = [interests EXCEPT ![f] = new]
            /\ wdata' = [wdata EXCEPT ![f][d] = t]
            /\ th' = [th EXCEPT ![t] = [pc |-> "sleeping", fd |-> f, dir |-> d, reason |-> None, by |-> <<>>, res |-> 0]]
            /\ UNCHANGED <<ready, batch, crash, addfail>>

(* ---- rm_interest({fd, dirs}) : new <<kreg[f], interests[f], wdata[f]>> ---- *)
Rm(f, dirs) ==
    LET eint == interests[f]
        inter == dirs \cap eint
        remain == eint \ inter
        cleared == [d \in D |-> IF d \in inter THEN None ELSE wdata[f][d]] IN
    IF inter = {} THEN <<kreg[f], eint, wdata[f]>>
    ELSE IF remain = {"OS"} THEN <<kreg[f], remain, cleared>>                                     \* no need to epoll_ctl()
    ELSE IF remain = {} THEN <<NoReg, remain, cleared>>                                          \* EPOLL_CTL_DEL (ENOENT ignored)
    ELSE IF Bug = "norearm" THEN <<kreg[f], remain, cleared>>
    ELSE IF Bug = "delall" THEN <<NoReg, remain, cleared>>
    ELSE IF ~kreg[f].exists THEN <<kreg[f], eint, wdata[f]>>                                     \* MOD fails: "failed to rm_interest()", nothing updated
    ELSE <<[mask |-> remain \cap D, armed |-> TRUE, exists |-> TRUE], remain, cleared>>          \* EPOLL_CTL_MOD re-arms
ApplyRm(f, dirs) == LET r == Rm(f, dirs) IN
    /\ kreg' = [kreg EXCEPT ![f] = r[1]] /\ interests' = [interests EXCEPT ![f] = r[2]] /\ wdata' = [wdata EXCEPT ![f] = r[3]]

(* ---- the kernel: epoll_wait fetches up to B ready, armed registrations (any of them, in any order) and disarms them ---- *)
Fetchable == {f \in FDS : kreg[f].exists /\ kreg[f].armed /\ kreg[f].mask \cap ready[f] # {}}
RECURSIVE Perms(_)
Perms(X) == IF X = {} THEN {<<>>} ELSE UNION {{<<x>> \o p : p \in Perms(X \ {x})} : x \in X}
EpollWait ==
    /\ batch = <<>> /\ Fetchable # {}
    /\ \E X \in SUBSET Fetchable :
          /\ Cardinality(X) = (IF Cardinality(Fetchable) < B THEN Cardinality(Fetchable) ELSE B)
          /\ \E p \in Perms(X) :
                /\ batch' = [i \in 1..Len(p) |-> [fd |-> p[i], evs |-> kreg[p[i]].mask \cap ready[p[i]]]]
                /\ kreg' = [f \in FDS |-> IF f \in X THEN [kreg[f] EXCEPT !.armed = FALSE] ELSE kreg[f]]
    /\ UNCHANGED <<ready, interests, wdata, th, crash, addfail>>

(* ---- firing the last fetched event: thread_interrupt(waiter, EOK) per direction, then one-shot removal ---- *)
Wake(thr, t, f, d) ==      \* thread_interrupt(t, EOK): a sleeping thread is woken; a READY thread whose error_number is still 0 (expired) gets EOK
    IF thr[t].pc = "sleeping" THEN [thr EXCEPT ![t].pc = "ready", ![t].reason = "event", ![t].by = <<f, d>>]
    ELSE IF thr[t].pc = "ready" /\ thr[t].reason = "timeout" THEN [thr EXCEPT ![t].reason = "event", ![t].by = <<f, d>>]
    ELSE thr
Fire ==
    /\ batch # <<>>
    /\ LET e == batch[Len(batch)]  f == e.fd
           fired == IF Bug = "nocheck" THEN e.evs ELSE {d \in e.evs : d \in interests[f]}
           tr == IF "R" \in fired /\ wdata[f]["R"] # None THEN Wake(th, wdata[f]["R"], f, "R") ELSE th
           tw == IF "W" \in fired /\ wdata[f]["W"] # None THEN Wake(tr, wdata[f]["W"], f, "W") ELSE tr IN
       /\ batch' = SubSeq(batch, 1, Len(batch) - 1)
       /\ th' = tw
       /\ crash' = (crash \/ \E d \in fired : wdata[f][d] = None)              \* thread_interrupt(nullptr)
       /\ IF fired # {} /\ "OS" \in interests[f] THEN ApplyRm(f, fired) ELSE UNCHANGED <<kreg, interests, wdata>>
    /\ UNCHANGED <<ready, addfail>>

(* ---- the scheduler / other threads: a sleeping waiter expires or is interrupted ---- *)
Expire(t, why) == /\ LibMayRun /\ th[t].pc = "sleeping" /\ th' = [th EXCEPT ![t].pc = "ready", ![t].reason = why]
                  /\ UNCHANGED <<ready, kreg, interests, wdata, batch, crash, addfail>>
(* ---- the woken thread runs the rest of wait_for_fd ---- *)
Resume(t) ==
    /\ LibMayRun /\ th[t].pc = "ready"
    /\ IF th[t].reason = "event"
       THEN UNCHANGED <<kreg, interests, wdata>>                                            \* return 0
       ELSE ApplyRm(th[t].fd, {th[t].dir})                                                   \* rm_interest({fd, interest, 0}); return -1
    /\ th' = [th EXCEPT ![t] = [Idle EXCEPT !.res = IF th[t].reason = "event" THEN 0 ELSE -1]]
    /\ UNCHANGED <<ready, batch, crash, addfail>>
(* ---- close(): wait_for_fd(fd, 0) removes everything; the kernel forgets the descriptor; the number is reused ---- *)
Close(f) == /\ Closes /\ LibMayRun /\ \A t \in Threads : ~(th[t].pc # "idle" /\ th[t].fd = f)
            /\ LET r == Rm(f, {"R", "W", "OS"}) IN
                 /\ kreg' = [kreg EXCEPT ![f] = NoReg]                                       \* whatever was registered goes with the descriptor
                 /\ interests' = [interests EXCEPT ![f] = r[2]] /\ wdata' = [wdata EXCEPT ![f] = r[3]]
            /\ ready' = [ready EXCEPT ![f] = {}]
            /\ UNCHANGED <<batch, th, crash, addfail>>
(* ---- the environment: readiness of the sockets changes at any time ---- *)
Flip(f, d) == /\ ready' = [ready EXCEPT ![f] = IF d \in @ THEN @ \ {d} ELSE @ \cup {d}]
              /\ UNCHANGED <<kreg, interests, wdata, batch, th, crash, addfail>>
Next == \/ \E t \in Threads, f \in FDS, d \in D : StartWait(t, f, d)
        \/ EpollWait \/ Fire
        \/ \E t \in Threads : Expire(t, "timeout") \/ Expire(t, "intr") \/ Resume(t)
        \/ \E f \in FDS : Close(f)
        \/ \E f \in FDS, d \in D : Flip(f, d)
Spec == Init /\ [][Next]_vars

(* ---------------- properties ---------------- *)
Waiting(t, f, d) == th[t].pc \in {"sleeping", "ready"} /\ th[t].fd = f /\ th[t].dir = d
(* the waiter recorded for a direction is the thread waiting for exactly that descriptor and direction *)
WaiterConsistent == \A f \in FDS, d \in D :
    /\ wdata[f][d] # None => (d \in interests[f] /\ Waiting(wdata[f][d], f, d))
    /\ \A t \in Threads : (th[t].pc = "sleeping" /\ th[t].fd = f /\ th[t].dir = d) => (wdata[f][d] = t /\ d \in interests[f])
(* an event wakes only the thread waiting for that descriptor and direction *)
EventGoesToItsWaiter == /\ ~crash
                        /\ \A t \in Threads : (th[t].pc = "ready" /\ th[t].reason = "event") => th[t].by = <<th[t].fd, th[t].dir>>
(* a sleeping waiter whose direction is ready will be told: its registration is armed, or an event that covers it - or whose  *)
(* firing re-arms the registration - is already fetched                                                                       *)
NoLostReadiness == \A t \in Threads : (th[t].pc = "sleeping" /\ th[t].dir \in ready[th[t].fd]) =>
    LET f == th[t].fd  d == th[t].dir IN
    \/ kreg[f].exists /\ kreg[f].armed /\ d \in kreg[f].mask
    \/ \E i \in 1..Len(batch) : batch[i].fd = f /\ (d \in batch[i].evs \/ batch[i].evs \cap interests[f] # {})
NoAddFailure == ~addfail
RegisteredNothingWhenNoInterest == \A f \in FDS : interests[f] = {} => ~kreg[f].exists
(* one waiter's timeout / interrupt (and its clean-up) leaves every other waiter's registration as it was *)
Armed(f, d) == kreg[f].exists /\ kreg[f].armed /\ d \in kreg[f].mask
Others(t) == {<<f, d>> \in FDS \X D : ~(f = th[t].fd /\ d = th[t].dir)}
TimeoutIsolated == [][\A t \in Threads :
    ((th[t].pc = "sleeping" /\ th'[t].pc = "ready" /\ th'[t].reason \in {"timeout", "intr"})           \* the expiry itself
       \/ (th[t].pc = "ready" /\ th[t].reason \in {"timeout", "intr"} /\ th'[t].pc = "idle"))           \* and the clean-up
    => \A p \in Others(t) : /\ wdata'[p[1]][p[2]] = wdata[p[1]][p[2]]
                            /\ (p[2] \in interests'[p[1]]) = (p[2] \in interests[p[1]])
                            /\ (Armed(p[1], p[2]) => Armed(p[1], p[2])')
                            /\ \A u \in Threads \ {t} : th'[u] = th[u]]_vars
====
