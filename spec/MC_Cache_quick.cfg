\* quick: extent-map query, inline refill, refill unit = 1 block, 2 readers x 1 read of 3 ranges, 1 eviction (explicit or sweep), 1 source fault
SPECIFICATION Spec
CONSTANTS
  NF = 1
  SZ = 7
  BLK = 2
  RU = 2
  Readers = {r1, r2}
  r1 = r1
  r2 = r2
  ReadSet <- RS_q3
  NReads = 1
  MaxEv = 1
  Async = FALSE
  MaxRefilling = 2
  Faults = 1
  Fiemap = TRUE
  CapFull = FALSE
  ReopenMax = 0
  PunchMax = 0
  PunchGuard = FALSE
  Bug = "none"
SYMMETRY Sym
INVARIANTS ReadsEqualSource FailedSourceNeverWrongBytes NeverBeyondSize MediaOnlyCorrectOrHole RefillDedup RangeLockDisjoint RefillingCount LocksAtRest TypeOK
