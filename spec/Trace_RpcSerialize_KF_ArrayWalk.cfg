SPECIFICATION Spec
CONSTANTS
  Classify = TRUE
  KF_NestedAligned = FALSE
  KF_MapSlices = FALSE
  KF_FixedLen = FALSE
  KF_ArrayWalk = TRUE
  KF_Checksum = FALSE
INVARIANT NotAccepted
CHECK_DEADLOCK FALSE
