SPECIFICATION FairSpec
CONSTANTS
  P = {1, 2, 3}
  Kind = "spin"
  Rounds = 2
  UseTry = TRUE
INVARIANT MutualExclusion
PROPERTY Terminates
