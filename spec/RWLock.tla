---- MODULE RWLock ----
(* C06, model of photon::rwlock (thread/thread.cpp rwlock::lock / unlock: a signed state word updated under an internal  *)
(* mutex, a condition variable whose queue order decides admission, a per-thread mode mark) and photon::qrwlock           *)
(* (thread/thread.h: atomic state word with CAS fast paths, slow path under a spinlock with two condition variables).      *)
(* The mutex and the condition variable are used at the granularity their own models (MutexCore, CondVar) justify:         *)
(* cv.wait = {enqueue; release lock} in one step, notify_one = {dequeue head} in one step, a timeout or interrupt of a     *)
(* sleeping locker = {dequeue it} in one step.  Each locker performs one lock (read or write, timed or not) and, when      *)
(* admitted, one unlock.                                                                                                   *)
EXTENDS Naturals, Integers, Sequences, FiniteSets, TLC
CONSTANTS T, Mode, Timed, Kind, PeekUnlock
\* PeekUnlock = TRUE models rwlock::unlock() as it was before the repair (choose by a peek at the head, then wake "readers only")
\* Mode[t] \in {"r","w"}; Timed \subseteq T may time out / be interrupted while asleep; Kind \in {"rw","qrw"}
None == "none"
VARIABLES state, mtx, q, qs, qu, pc, reason, res, inside
\* state: rw: >0 readers, <0 writer (-1) ; q: rwlock's cv queue ; qs / qu: qrwlock's shared / unique cv queues
vars == <<state, mtx, q, qs, qu, pc, reason, res, inside>>
Init == /\ state = 0 /\ mtx = None /\ q = <<>> /\ qs = <<>> /\ qu = <<>>
        /\ pc = [t \in T |-> "start"] /\ reason = [t \in T |-> None] /\ res = [t \in T |-> 1] /\ inside = {}
Goto(t, s) == pc' = [pc EXCEPT ![t] = s]
Remove(seq, x) == SelectSeq(seq, LAMBDA y : y # x)
InSeq(seq, x) == \E i \in 1..Len(seq) : seq[i] = x
Conflict(t) == IF Mode[t] = "r" THEN state < 0 ELSE state # 0
(* ================= rwlock ================= *)
RwLockMtx(t) == /\ Kind = "rw" /\ pc[t] \in {"start", "relock"} /\ mtx = None /\ mtx' = t
                /\ Goto(t, IF pc[t] = "start" THEN "first" ELSE "woken")
                /\ UNCHANGED <<state, q, qs, qu, reason, res, inside>>
\* if (cvar.q.th || conflict) wait ... else admit
RwFirst(t) == /\ pc[t] = "first"
              /\ IF q # <<>> \/ Conflict(t) THEN Goto(t, "wait") ELSE Goto(t, "admit")
              /\ UNCHANGED <<state, mtx, q, qs, qu, reason, res, inside>>
RwWait(t) == /\ pc[t] = "wait" /\ mtx = t
             /\ q' = Append(q, t) /\ mtx' = None /\ reason' = [reason EXCEPT ![t] = None] /\ Goto(t, "sleeping")
             /\ UNCHANGED <<state, qs, qu, res, inside>>
RwWoken(t) == /\ pc[t] = "woken"      \* holds mtx again
              /\ IF reason[t] = "timeout"
                 THEN /\ res' = [res EXCEPT ![t] = -1] /\ mtx' = None /\ Goto(t, "done")    \* returns -1 before touching state
                 ELSE /\ (IF Conflict(t) THEN Goto(t, "wait") ELSE Goto(t, "admit")) /\ UNCHANGED <<res, mtx>>
              /\ UNCHANGED <<state, q, qs, qu, reason, inside>>
RwAdmit(t) == /\ pc[t] = "admit" /\ mtx = t
              /\ state' = IF Mode[t] = "r" THEN state + 1 ELSE state - 1
              /\ mtx' = None /\ res' = [res EXCEPT ![t] = 0] /\ inside' = inside \cup {t} /\ Goto(t, "held")
              /\ UNCHANGED <<q, qs, qu, reason>>
RwUnlockMtx(t) == /\ Kind = "rw" /\ pc[t] = "held" /\ mtx = None /\ mtx' = t /\ inside' = inside \ {t} /\ Goto(t, "unl")
                  /\ UNCHANGED <<state, q, qs, qu, reason, res>>
RwUnl(t) == /\ pc[t] = "unl"
            /\ state' = IF state > 0 THEN state - 1 ELSE state + 1
            /\ Goto(t, IF state' = 0 /\ q # <<>>
                         THEN (IF PeekUnlock THEN (IF Mode[Head(q)] = "w" THEN "notify1" ELSE "notifyR") ELSE "notifyF")
                         ELSE "unl_end")
            /\ UNCHANGED <<mtx, q, qs, qu, reason, res, inside>>
NotifyHead == /\ q' = Tail(q) /\ reason' = [reason EXCEPT ![Head(q)] = "notified"]
RwNotify1(t) == /\ pc[t] = "notify1"
                /\ IF q = <<>> THEN UNCHANGED <<q, reason>> /\ Goto(t, "unl_end")
                   ELSE NotifyHead /\ pc' = [pc EXCEPT ![Head(q)] = "relock", ![t] = "unl_end"]
                /\ UNCHANGED <<state, mtx, qs, qu, res, inside>>
\* repaired unlock: wake the head whoever it is now; continue with the readers behind it only if a reader was woken
RwNotifyF(t) == /\ pc[t] = "notifyF"
                /\ IF q = <<>> THEN UNCHANGED <<q, reason>> /\ Goto(t, "unl_end")
                   ELSE NotifyHead /\ pc' = [pc EXCEPT ![Head(q)] = "relock", ![t] = IF Mode[Head(q)] = "r" THEN "notifyR" ELSE "unl_end"]
                /\ UNCHANGED <<state, mtx, qs, qu, res, inside>>
RwNotifyR(t) == /\ pc[t] = "notifyR"
                /\ IF q = <<>> \/ Mode[Head(q)] # "r" THEN Goto(t, "unl_end") /\ UNCHANGED <<q, reason>>
                   ELSE NotifyHead /\ pc' = [pc EXCEPT ![Head(q)] = "relock"]
                /\ UNCHANGED <<state, mtx, qs, qu, res, inside>>
RwUnlEnd(t) == /\ pc[t] = "unl_end" /\ mtx' = None /\ Goto(t, "done")
               /\ UNCHANGED <<state, q, qs, qu, reason, res, inside>>
(* ================= qrwlock ================= *)
QTry(t) == IF Mode[t] = "w" THEN state = 0 ELSE state >= 0
QTake(t) == state' = IF Mode[t] = "w" THEN -1 ELSE state + 1
\* fast path: try without the spinlock
QFast(t) == /\ Kind = "qrw" /\ pc[t] = "start"
            /\ IF QTry(t) THEN QTake(t) /\ res' = [res EXCEPT ![t] = 0] /\ inside' = inside \cup {t} /\ Goto(t, "held")
                          ELSE Goto(t, "qslow") /\ UNCHANGED <<state, res, inside>>
            /\ UNCHANGED <<mtx, q, qs, qu, reason>>
QSlowLock(t) == /\ Kind = "qrw" /\ pc[t] \in {"qslow", "relock"} /\ mtx = None /\ mtx' = t
                /\ Goto(t, IF pc[t] = "relock" /\ reason[t] = "timeout" THEN "qfail" ELSE "qloop")
                /\ UNCHANGED <<state, q, qs, qu, reason, res, inside>>
QLoop(t) == /\ pc[t] = "qloop" /\ mtx = t
            /\ IF QTry(t) THEN /\ QTake(t) /\ res' = [res EXCEPT ![t] = 0] /\ inside' = inside \cup {t}
                               /\ mtx' = None /\ Goto(t, "held") /\ UNCHANGED <<qs, qu, reason>>
               ELSE /\ IF Mode[t] = "w" THEN qu' = Append(qu, t) /\ UNCHANGED qs ELSE qs' = Append(qs, t) /\ UNCHANGED qu
                    /\ reason' = [reason EXCEPT ![t] = None] /\ mtx' = None /\ Goto(t, "sleeping")
                    /\ UNCHANGED <<state, res, inside>>
            /\ UNCHANGED q
QFail(t) == /\ pc[t] = "qfail" /\ mtx = t /\ mtx' = None /\ res' = [res EXCEPT ![t] = -1] /\ Goto(t, "done")
            /\ UNCHANGED <<state, q, qs, qu, reason, inside>>
\* unlock(): reads the state word to decide which unlock to run
QUnlock(t) == /\ Kind = "qrw" /\ pc[t] = "held" /\ inside' = inside \ {t}
              /\ IF state = -1 THEN Goto(t, "qu_lock") /\ UNCHANGED state
                 ELSE /\ state' = state - 1                         \* fetch_sub
                      /\ Goto(t, IF state = 1 THEN "qs_lock" ELSE "done")
              /\ UNCHANGED <<mtx, q, qs, qu, reason, res>>
QUniqueLock(t) == /\ pc[t] = "qu_lock" /\ mtx = None /\ mtx' = t /\ state' = 0 /\ Goto(t, "qwake")
                  /\ UNCHANGED <<q, qs, qu, reason, res, inside>>
QSharedLock(t) == /\ pc[t] = "qs_lock" /\ mtx = None /\ mtx' = t /\ Goto(t, "qwake")
                  /\ UNCHANGED <<state, q, qs, qu, reason, res, inside>>
\* try_wake under the spinlock: one writer, else all readers
QWake(t) == /\ pc[t] = "qwake" /\ mtx = t
            /\ IF qu # <<>>
               THEN /\ qu' = Tail(qu) /\ reason' = [reason EXCEPT ![Head(qu)] = "notified"]
                    /\ pc' = [pc EXCEPT ![Head(qu)] = "relock", ![t] = "done"] /\ UNCHANGED qs
               ELSE /\ qs' = <<>> /\ reason' = [x \in T |-> IF InSeq(qs, x) THEN "notified" ELSE reason[x]]
                    /\ pc' = [x \in T |-> IF InSeq(qs, x) THEN "relock" ELSE IF x = t THEN "done" ELSE pc[x]] /\ UNCHANGED qu
            /\ mtx' = None
            /\ UNCHANGED <<state, q, res, inside>>
(* ================= environment: timeout / interrupt of a sleeping locker ================= *)
Expire(t) == /\ t \in Timed /\ pc[t] = "sleeping"
             /\ q' = Remove(q, t) /\ qs' = Remove(qs, t) /\ qu' = Remove(qu, t)
             /\ reason' = [reason EXCEPT ![t] = "timeout"] /\ Goto(t, "relock")
             /\ UNCHANGED <<state, mtx, res, inside>>
Finished == (\A t \in T : pc[t] \in {"done", "sleeping"}) /\ UNCHANGED vars
Next == \/ \E t \in T : \/ RwLockMtx(t) \/ RwFirst(t) \/ RwWait(t) \/ RwWoken(t) \/ RwAdmit(t) \/ RwUnlockMtx(t) \/ RwUnl(t)
                        \/ RwNotify1(t) \/ RwNotifyF(t) \/ RwNotifyR(t) \/ RwUnlEnd(t)
                        \/ QFast(t) \/ QSlowLock(t) \/ QLoop(t) \/ QFail(t) \/ QUnlock(t) \/ QUniqueLock(t) \/ QSharedLock(t) \/ QWake(t)
                        \/ Expire(t)
        \/ Finished
Spec == Init /\ [][Next]_vars
(* ================= properties ================= *)
Writers == {t \in inside : Mode[t] = "w"}
WriterExclusive == Writers # {} => Cardinality(inside) = 1
StateMatchesHolders == (mtx = None /\ \A t \in T : pc[t] \notin {"unl", "notify1", "notifyF", "notifyR", "unl_end", "qu_lock", "qs_lock", "qwake"})
                          => (IF Writers # {} THEN state = -1 ELSE state = Cardinality(inside))
\* a failed lock left nothing behind: once everybody is done or asleep and nobody holds the lock, nobody is asleep
AtRest == \A t \in T : pc[t] \in {"done", "sleeping"}
AdmittedAfterLastUnlock == (AtRest /\ inside = {}) => (\A t \in T : pc[t] = "done") /\ state = 0
FailedIsNoOp == \A t \in T : res[t] = -1 => (t \notin inside /\ ~InSeq(q, t) /\ ~InSeq(qs, t) /\ ~InSeq(qu, t))
====
