SPECIFICATION Spec
CONSTANTS
  Kind = "spsc"
  Cap = 2
  M = 8
  MarkMod = 8
  Prod = {1}
  Cons = {3}
  Prog <- Prog_s
  StartSet = {0}
  Bug = "spsc_pub_first"
INVARIANTS ExactlyOnce FifoLinearizable PerProducerOrder CapacityBound NoTornSlot

