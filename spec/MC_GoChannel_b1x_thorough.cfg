\* buffered cap 1, repaired protocol, 1 sender x 2 calls, 2 receivers x 1 call, with and without timeout, close()
SPECIFICATION Spec
CONSTANTS
  Cap = 1
  S = {"s1"}
  R = {"r1", "r2"}
  NV = 2
  NR = 1
  SKinds = {"inf", "timed"}
  RKinds = {"inf", "timed"}
  WithClose = TRUE
  KF = {}
INVARIANTS TypeOK DeliveredExactlyOnce PerSenderOrder FalseOnlyOnCloseOrTimeout DrainAfterClose ReleasedWhenPartnerExists ReleasedOnClose
CHECK_DEADLOCK FALSE
