\* witness: eviction truncates without the store write lock
SPECIFICATION Spec
CONSTANTS
  NF = 1
  SZ = 7
  BLK = 2
  RU = 2
  Readers = {r1, r2}
  r1 = r1
  r2 = r2
  ReadSet <- RS_one
  NReads = 2
  MaxEv = 1
  Async = FALSE
  MaxRefilling = 2
  Faults = 0
  Fiemap = TRUE
  CapFull = FALSE
  ReopenMax = 0
  PunchMax = 0
  PunchGuard = FALSE
  Bug = "nowlock"
SYMMETRY Sym
INVARIANTS ReadsEqualSource FailedSourceNeverWrongBytes NeverBeyondSize MediaOnlyCorrectOrHole RefillDedup RangeLockDisjoint RefillingCount LocksAtRest
