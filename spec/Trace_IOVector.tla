---- MODULE Trace_IOVector ----
(* Judges calls recorded from the real iovector_view / iovector (harness/h_iovec.cpp, one ndjson line per  *)
(* call with the complete observable pre- and post-state) with Judge of IOVectorOps (the reference on the    *)
(* flat byte sequence), and compares the outcome with the transcription Impl.  Every line that disagrees is  *)
(* printed as "MISMATCH <line> <set>"; the trace is accepted (NotAccepted violated) when every line was read.*)
EXTENDS IOVectorOps, Json, IOUtils
Tr == ndJsonDeserialize(IOEnv.TRACE)
VARIABLE l
ToEl(a) == El(a[1], a[2], a[3])
Els(seq) == [k \in 1..Len(seq) |-> ToEl(seq[k])]
MemOf(list) == [id \in {list[k][1] : k \in 1..Len(list)} |-> list[CHOOSE k \in 1..Len(list) : list[k][1] = id][2]]
Pre(r) == [v |-> Els(r.v), mem |-> MemOf(r.mem), own |-> r.own, ff |-> r.ff, bf |-> r.bf, nb |-> r.nb, nx |-> r.nx,
           cap |-> r.cap, amax |-> r.amax]
OpOf(r) == [op |-> r.op, n |-> r.n, off |-> r.off, N |-> r.N, D |-> r.D, w |-> Els(r.w), wk |-> r.wk, el |-> ToEl(r.el)]
Post(r) == LET m1 == MemOf(r.mem)  m2 == MemOf(r.mem2) IN
           [ret |-> r.ret, v |-> Els(r.v2),
            mem |-> [id \in (DOMAIN m1) \cup (DOMAIN m2) |-> IF id \in DOMAIN m2 THEN m2[id] ELSE m1[id]],
            ff |-> r.ff2, bf |-> r.bf2, nb |-> r.nb2, nx |-> r.nx2, dv |-> Els(r.dv), ptr |-> r.ptr, oob |-> FALSE, slot0 |-> FALSE]
Diff(I, P) == {f \in {"ret", "v", "ff", "bf", "nb", "nx", "dv", "ptr", "mem"} : I[f] # P[f]}
Problems(r) ==
  IF r.e = "Fatal" THEN {"fatal: signal or sanitizer report inside the library"} ELSE
  LET S == Pre(r)  o == OpOf(r)  P == Post(r)  I == Impl(S, o)  d == Diff(I, P) IN
  Judge(S, o, P) \cup (IF SlotsOK(S, P) THEN {} ELSE {"iovec slots not conserved"})
  \cup (IF d = {} THEN {} ELSE {"differs from the transcription in " \o ToString(d)})
Init == l = 1
Next == /\ l <= Len(Tr)
        /\ LET p == Problems(Tr[l]) IN IF p = {} THEN TRUE ELSE PrintT("MISMATCH " \o ToString(l) \o " " \o ToString(p))
        /\ l' = l + 1
Spec == Init /\ [][Next]_l
NotAccepted == l <= Len(Tr)
====
