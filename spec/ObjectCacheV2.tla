---- MODULE ObjectCacheV2 ----
(* C19, second (smaller) module: ObjectCacheV2<K, V*> (common/objectcachev2.h) - boxes in an unordered_set, the cached    *)
(* object behind a shared_ptr, per-box `createlock`, per-box atomic reference count `rc`, LRU list walked by the reclaimer. *)
(* The object itself cannot die while borrowed (every Borrow owns a shared_ptr copy) - that clause of C19 holds by          *)
(* construction and is not modelled.  What the protocol has to guarantee is modelled: the BOX (a node of the set, reached    *)
(* through raw Box* in Borrow) is not erased while a thread still uses it, one constructor per key at a time, a failed       *)
(* construction blocks later ones only inside the cool-down, no deadlock in borrow()'s try_lock / yield loop.                *)
(* V2's recycle (`Borrow::recycle(true)`: box->reset() at ~Borrow) deliberately does NOT wait for other borrowers and         *)
(* update() replaces the object under live borrowers, so "one live object per key" / "recycler waits" are V1-only clauses.    *)
(*                                                                                                                        *)
(* Granularity: sections under `maplock` (a photon::mutex, but no section yields, so a section is atomic) are one action;    *)
(* atomics on the box (rc.fetch_add / fetch_sub, atomic_exchange of ref) are one action each.                                *)
(*   BorrowCall :208 __find_or_create_box (:98-112): find / emplace, lru_list.pop(box), box->acquire()                       *)
(*   BTry       :212-224 createlock.try_lock; reader(); construct (keeping createlock) / give up inside cool-down / fall out   *)
(*   BReread    :225-226 thread_yield(); r = box.reader(); loop                                                               *)
(*   BCtorEnd   :218-220 ctor() returned (object | null); box.update(r, now); Borrow(...) ; createlock.unlock()                *)
(*                (Borrow's own box->acquire() followed by borrow()'s deferred box.release() leave rc as it was and           *)
(*                 stamp the box; they are folded into the step that returns)                                                *)
(*   ~Borrow    :184-195  DReset (`if (_recycle) _box->reset()`), DRelease (`_box->release()`: stamp, rc.fetch_sub),            *)
(*                DCheck (`if (_box->rc == 0)`  - reads the box AFTER the reference was given up),                            *)
(*                DPush  (maplock: lru_list.pop(_box); lru_list.push_back(_box))                                             *)
(*   Expire     :113-138 __expire(): under maplock pop every front box older than now - lifespan; erase it if rc == 0           *)
(* FixTail = TRUE models the proposed repair (release + test + re-link inside one maplock section): safe without assumption. *)
(* StallFree = TRUE states the ASSUMPTION under which the box protocol is safe: the clock does not advance while a thread     *)
(* is between DRelease and the end of ~Borrow (i.e. no thread is stalled for a whole lifespan there).  With                    *)
(* StallFree = FALSE (the code on a preemptive multi-vCPU machine, no assumption) TLC produces the counterexample:             *)
(* A.release (rc 2->1) ... B.release (1->0), B pushes the box on the LRU list, lifespan passes, the reclaimer erases the box,  *)
(* A evaluates `_box->rc == 0` on freed storage (and may push the dead box on the LRU list).                                  *)
EXTENDS Naturals, Integers, Sequences, FiniteSets, TLC
CONSTANTS Threads, Keys, MaxAcq, MaxBoxes, Lifespan, MaxNow, CoolDowns, StallFree, FixTail, BugNoCreateLock
None == 0
NoT == "none"
Boxes == 1..MaxBoxes
VARIABLES now, alloc, bkey, ref, lastcreate, stamp, rc, clock, map, lru, nobj,
          pc, box, key, cd, rcy, nacq, hold, bad
bvars == <<alloc, bkey, ref, lastcreate, stamp, rc, clock>>
tvars == <<pc, box, key, cd, rcy, nacq, hold>>
vars == <<now, bvars, map, lru, nobj, tvars, bad>>
Init == /\ now = 1 /\ alloc = [b \in Boxes |-> FALSE] /\ bkey = [b \in Boxes |-> 0] /\ ref = [b \in Boxes |-> 0]
        /\ lastcreate = [b \in Boxes |-> 0] /\ stamp = [b \in Boxes |-> 0] /\ rc = [b \in Boxes |-> 0]
        /\ clock = [b \in Boxes |-> NoT] /\ map = {} /\ lru = <<>> /\ nobj = 0
        /\ pc = [t \in Threads |-> "idle"] /\ box = [t \in Threads |-> None] /\ key = [t \in Threads |-> 0]
        /\ cd = [t \in Threads |-> 0] /\ rcy = [t \in Threads |-> FALSE] /\ nacq = [t \in Threads |-> 0]
        /\ hold = [t \in Threads |-> None] /\ bad = {}
Remove(s, x) == SelectSeq(s, LAMBDA y : y # x)
InLru(x) == \E n \in 1..Len(lru) : lru[n] = x
SatSub(a, b) == IF a > b THEN a - b ELSE 0
Referenced(b) == b \in map \/ InLru(b) \/ \E t \in Threads : box[t] = b \/ hold[t] = b
FreeIds == {b \in Boxes : ~alloc[b] /\ ~Referenced(b)}
NewId == CHOOSE b \in FreeIds : \A c \in FreeIds : b <= c
Find(k) == {b \in map : bkey[b] = k}
Ret(t, b) == /\ pc' = [pc EXCEPT ![t] = "idle"] /\ hold' = [hold EXCEPT ![t] = b] /\ box' = [box EXCEPT ![t] = None]
             /\ key' = [key EXCEPT ![t] = 0] /\ cd' = [cd EXCEPT ![t] = 0]

BorrowCall(t, k, c) ==
  /\ pc[t] = "idle" /\ hold[t] = None /\ nacq[t] < MaxAcq /\ FreeIds # {}
  /\ LET hit == Find(k)  fresh == hit = {}  b == IF fresh THEN NewId ELSE CHOOSE x \in hit : TRUE IN
     /\ IF fresh THEN alloc' = [alloc EXCEPT ![b] = TRUE] /\ bkey' = [bkey EXCEPT ![b] = k] /\ map' = map \cup {b}
                 ELSE UNCHANGED <<alloc, bkey, map>>
     /\ lru' = Remove(lru, b) /\ stamp' = [stamp EXCEPT ![b] = now] /\ rc' = [rc EXCEPT ![b] = @ + 1]
     /\ box' = [box EXCEPT ![t] = b]
  /\ pc' = [pc EXCEPT ![t] = "b_try"] /\ key' = [key EXCEPT ![t] = k] /\ cd' = [cd EXCEPT ![t] = c]
  /\ nacq' = [nacq EXCEPT ![t] = @ + 1]
  /\ UNCHANGED <<now, ref, lastcreate, clock, nobj, rcy, hold, bad>>
BTry(t) ==
  /\ pc[t] = "b_try"
  /\ LET b == box[t] IN
     IF clock[b] # NoT /\ ~BugNoCreateLock THEN /\ pc' = [pc EXCEPT ![t] = "b_reread"]
                                                /\ UNCHANGED <<clock, stamp, hold, box, key, cd, bad>>
     ELSE IF ref[b] # 0 THEN /\ pc' = [pc EXCEPT ![t] = "b_reread"] /\ UNCHANGED <<clock, stamp, hold, box, key, cd, bad>>
     ELSE IF lastcreate[b] + cd[t] <= now
          THEN /\ clock' = [clock EXCEPT ![b] = t] /\ pc' = [pc EXCEPT ![t] = "b_ctor"]
               /\ UNCHANGED <<stamp, hold, box, key, cd, bad>>
          ELSE \* inside the cool-down: Borrow with an empty reader (it still references the box)
               /\ stamp' = [stamp EXCEPT ![b] = now] /\ Ret(t, b) /\ UNCHANGED clock
               /\ bad' = IF lastcreate[b] = 0 THEN bad \cup {"construction skipped without a failure"} ELSE bad
  /\ UNCHANGED <<now, alloc, bkey, ref, lastcreate, rc, map, lru, nobj, rcy, nacq>>
BReread(t) ==
  /\ pc[t] = "b_reread"
  /\ LET b == box[t] IN
     IF ref[b] # 0 THEN stamp' = [stamp EXCEPT ![b] = now] /\ Ret(t, b)
                   ELSE pc' = [pc EXCEPT ![t] = "b_try"] /\ UNCHANGED <<stamp, hold, box, key, cd>>
  /\ UNCHANGED <<now, alloc, bkey, ref, lastcreate, rc, clock, map, lru, nobj, rcy, nacq, bad>>
BCtorEnd(t, ok) ==
  /\ pc[t] = "b_ctor"
  /\ LET b == box[t] IN
     /\ ref' = [ref EXCEPT ![b] = IF ok THEN nobj + 1 ELSE 0] /\ nobj' = IF ok THEN nobj + 1 ELSE nobj
     /\ lastcreate' = [lastcreate EXCEPT ![b] = now] /\ stamp' = [stamp EXCEPT ![b] = now]
     /\ clock' = [clock EXCEPT ![b] = IF @ = t THEN NoT ELSE @]
     /\ Ret(t, b)
  /\ UNCHANGED <<now, alloc, bkey, rc, map, lru, rcy, nacq, bad>>
\* ~Borrow
DropCall(t, r) ==
  /\ pc[t] = "idle" /\ hold[t] # None
  /\ box' = [box EXCEPT ![t] = hold[t]] /\ hold' = [hold EXCEPT ![t] = None] /\ rcy' = [rcy EXCEPT ![t] = r]
  /\ pc' = [pc EXCEPT ![t] = IF r THEN "d_reset" ELSE "d_release"]
  /\ UNCHANGED <<now, bvars, map, lru, nobj, key, cd, nacq, bad>>
DReset(t) ==
  /\ pc[t] = "d_reset"
  /\ ref' = [ref EXCEPT ![box[t]] = 0] /\ lastcreate' = [lastcreate EXCEPT ![box[t]] = 0]
  /\ pc' = [pc EXCEPT ![t] = "d_release"]
  /\ UNCHANGED <<now, alloc, bkey, stamp, rc, clock, map, lru, nobj, box, key, cd, rcy, nacq, hold, bad>>
Done(t) == /\ pc' = [pc EXCEPT ![t] = "idle"] /\ box' = [box EXCEPT ![t] = None] /\ rcy' = [rcy EXCEPT ![t] = FALSE]
\* FixTail = TRUE models the proposed repair: release(), the rc test and the LRU re-link form ONE maplock section
DRelease(t) ==
  /\ pc[t] = "d_release"
  /\ stamp' = [stamp EXCEPT ![box[t]] = now] /\ rc' = [rc EXCEPT ![box[t]] = IF @ > 0 THEN @ - 1 ELSE 0]
  /\ bad' = IF rc[box[t]] = 0 THEN bad \cup {"rc underflow"} ELSE bad
  /\ IF FixTail THEN /\ lru' = IF rc[box[t]] = 1 THEN Append(Remove(lru, box[t]), box[t]) ELSE lru
                     /\ Done(t)
                ELSE pc' = [pc EXCEPT ![t] = "d_check"] /\ UNCHANGED <<lru, box, rcy>>
  /\ UNCHANGED <<now, alloc, bkey, ref, lastcreate, clock, map, nobj, key, cd, nacq, hold>>
DCheck(t) ==
  /\ pc[t] = "d_check"
  /\ bad' = IF ~alloc[box[t]] THEN bad \cup {"~Borrow reads rc of an erased box"} ELSE bad
  /\ IF alloc[box[t]] /\ rc[box[t]] # 0 THEN Done(t) ELSE pc' = [pc EXCEPT ![t] = "d_push"] /\ UNCHANGED <<box, rcy>>
  /\ UNCHANGED <<now, bvars, map, lru, nobj, key, cd, nacq, hold>>
DPush(t) ==
  /\ pc[t] = "d_push"
  /\ bad' = IF ~alloc[box[t]] THEN bad \cup {"~Borrow links an erased box into the LRU list"} ELSE bad
  /\ lru' = Append(Remove(lru, box[t]), box[t])
  /\ Done(t)
  /\ UNCHANGED <<now, bvars, map, nobj, key, cd, nacq, hold>>
(* environment *)
InTail == \E t \in Threads : pc[t] \in {"d_check", "d_push"}
Tick == /\ now < MaxNow /\ (StallFree => ~InTail) /\ now' = now + 1
        /\ UNCHANGED <<bvars, map, lru, nobj, tvars, bad>>
RECURSIVE Old(_)
Old(l) == IF l # <<>> /\ stamp[Head(l)] < SatSub(now, Lifespan) THEN <<Head(l)>> \o Old(Tail(l)) ELSE <<>>
Range(s) == {s[n] : n \in 1..Len(s)}
Expire ==
  LET p == Old(lru)  E == {b \in Range(p) : rc[b] = 0} IN
  /\ p # <<>>
  /\ lru' = SubSeq(lru, Len(p) + 1, Len(lru)) /\ map' = map \ E
  /\ alloc' = [b \in Boxes |-> alloc[b] /\ b \notin E] /\ bkey' = [b \in Boxes |-> IF b \in E THEN 0 ELSE bkey[b]]
  /\ ref' = [b \in Boxes |-> IF b \in E THEN 0 ELSE ref[b]] /\ lastcreate' = [b \in Boxes |-> IF b \in E THEN 0 ELSE lastcreate[b]]
  /\ stamp' = [b \in Boxes |-> IF b \in E THEN 0 ELSE stamp[b]]
  /\ UNCHANGED <<now, rc, clock, nobj, tvars, bad>>
Finished == (\A t \in Threads : pc[t] = "idle" /\ hold[t] = None) /\ UNCHANGED vars
Next == \/ \E t \in Threads : \/ \E k \in Keys, c \in CoolDowns : BorrowCall(t, k, c)
                              \/ BTry(t) \/ BReread(t) \/ BCtorEnd(t, TRUE) \/ BCtorEnd(t, FALSE)
                              \/ \E r \in BOOLEAN : DropCall(t, r)
                              \/ DReset(t) \/ DRelease(t) \/ DCheck(t) \/ DPush(t)
        \/ Tick \/ Expire \/ Finished
Spec == Init /\ [][Next]_vars
(* properties *)
Using == {"b_try", "b_reread", "b_ctor", "d_reset", "d_release"}
BoxNotErasedWhileReferenced == /\ \A t \in Threads : (pc[t] \in Using => alloc[box[t]]) /\ (hold[t] # None => alloc[hold[t]])
                               /\ \A b \in map : alloc[b]
BoxTailSafe == bad = {}                  \* DCheck / DPush never touch an erased box; rc never underflows; no skip without failure
LruSane == \A n \in 1..Len(lru) : alloc[lru[n]] /\ lru[n] \in map
CtorNotConcurrent == \A t1, t2 \in Threads : (t1 # t2 /\ pc[t1] = "b_ctor" /\ pc[t2] = "b_ctor") => key[t1] # key[t2]
OneBoxPerKey == \A b1, b2 \in map : bkey[b1] = bkey[b2] => b1 = b2
RcCounts == \A b \in map : rc[b] = Cardinality({t \in Threads : hold[t] = b \/ (box[t] = b /\ pc[t] \in Using)})
====
