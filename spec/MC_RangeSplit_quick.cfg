SPECIFICATION MCSpec
CONSTANTS
  Geoms <- GeomsQuick
  MaxOffMul = 3
  MaxLenMul = 3
INVARIANTS NoRunaway AllTile EmptyNoPart Classified Bounds FuncAgree
CHECK_DEADLOCK FALSE
