\* C18 RangeLock as written (common/range-lock.h). c18.py derives from this file: the same scope restricted to the region outside the recorded findings (must pass) and one expected-counterexample run per recorded finding. Quick tier: word 0..2, callers use lock() (handle API, retry loop over try_lock_wait2) and try_lock_wait (range API); the thorough tier adds try_lock_wait2 as a call of its own and word 0..3.
SPECIFICATION Spec
CONSTANTS
  MAXU = 2
  Offs = {0,1,2}
  Lens = {0,1,2,3}
  Threads = {t1,t2,t3}
  t1 = t1
  t2 = t2
  t3 = t3
  MaxOps = 2
  Kinds = {"lock","try1"}
  MaxIntr = 0
  FixEmpty = TRUE
  FixAdjust = TRUE
  Broken = "none"
  OnlyNonEmpty = FALSE
SYMMETRY Sym
CHECK_DEADLOCK FALSE
INVARIANTS TypeOK HeldDisjoint IndexOrdered LookupExact IndexIsHeld WaiterAttached NoStaleWaiter NoStuck
