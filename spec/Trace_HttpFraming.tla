---- MODULE Trace_HttpFraming ----
(* Judges what harness/h_http.cpp recorded from the real net/http code (C13).                              *)
(* Lines: M = a message (bytes), O = one distinct outcome of that message (parsed fields as buffer offsets,*)
(* body bytes, read return codes) with the number of cases (fragmentation x read sizes x buffer fill) that *)
(* produced it, D = a case whose outcome changed with the stale content of the buffer, L = a large message *)
(* in run-length form with its outcomes.  The state carries the reference of the current message, so it is *)
(* computed once per message.                                                                              *)
(* MODE (environment):                                                                                     *)
(*   property (default): Problems = disagreements with the REFERENCE grammar (Part 2 of HttpFramingOps).    *)
(*   explain : an O/D line is accepted iff the TRANSCRIPTION, with the deviations KF (environment) enabled,*)
(*             reproduces the recorded outcome of the example case -- used to classify known findings and, *)
(*             with KF empty, to show that the transcription follows the real code.                        *)
EXTENDS HttpFramingOps, Json, IOUtils
Tr == ndJsonDeserialize(IOEnv.TRACE)
Mode == IF "MODE" \in DOMAIN IOEnv THEN IOEnv.MODE ELSE "property"
KFEnv == (IF "KF" \in DOMAIN IOEnv /\ IOEnv.KF # "" THEN {IOEnv.KF} ELSE {}) \cup (IF "KF2" \in DOMAIN IOEnv /\ IOEnv.KF2 # "" THEN {IOEnv.KF2} ELSE {})
VARIABLES l, cur
CAP == 65535
Has(r, f) == f \in DOMAIN r
RECURSIVE Expand(_, _)                    \* [[v,n],...] -> v repeated n times ...
Expand(r, k) == IF k > Len(r) THEN <<>> ELSE [i \in 1..r[k][2] |-> r[k][1]] \o Expand(r, k + 1)
RECURSIVE RunTotal(_, _)                  \* number of bytes of a run-length coded string
RunTotal(r, k) == IF k = 0 THEN 0 ELSE RunTotal(r, k - 1) + r[k][2]
Pair(p) == <<p[1], p[2]>>

(* ---------------------------------------------------------------- the current message ---------------------------------------------------------------- *)
RKind(k) == IF k = "wchunk" THEN "cbody" ELSE IF k = "wlen" THEN "lbody" ELSE IF k = "wmsg" THEN "resp" ELSE k
MsgRec(r) == IF RKind(r.kind) = "lbody" THEN [kind |-> "lbody", bytes |-> r.msg, dn |-> r.dn] ELSE [kind |-> RKind(r.kind), bytes |-> r.msg]
OwnBytes(r) == IF Has(r, "tail") THEN SubSeq(r.msg, 1, Len(r.msg) - r.tail) ELSE r.msg      \* without the bytes of a following message
\* bytes the writer accepted = what the reader has to return
Accepted(r) == LET RECURSIVE S(_)  S(k) == IF k = 0 THEN 0 ELSE S(k - 1) + (IF r.wrc[k] > 0 THEN r.wrc[k] ELSE 0) IN SubSeq(r.data, 1, S(Len(r.wrc)))
RefOf(r) ==
  LET m == MsgRec(r) IN
  IF r.kind = "wchunk" THEN [valid |-> TRUE, complete |-> TRUE, payload |-> Accepted(r)]
  ELSE IF r.kind = "wlen" THEN [valid |-> TRUE, complete |-> TRUE, payload |-> SubSeq(r.msg, 1, Min(Len(r.msg), r.dn))]
  ELSE Expect(m, OwnBytes(r))
Cur(r) == [id |-> r.id, kind |-> r.kind, m |-> MsgRec(r), own |-> OwnBytes(r), ref |-> RefOf(r), row |-> r]

\* what the writers themselves must do
ProblemsM(r) ==
  IF r.kind = "wchunk" THEN (IF \E i \in 1..Len(r.sizes) : r.wrc[i] # r.sizes[i] THEN {"chunked write did not return its count"} ELSE {})
  ELSE IF r.kind = "wlen" THEN
       LET tot == Len(r.data)  w == Min(tot, r.dn) IN
       (IF r.msg # SubSeq(r.data, 1, w) THEN {"fixed-length writer: wire is not the data clipped at the declared size"} ELSE {})
       \cup (IF \E i \in 1..Len(r.wrc) : r.wrc[i] < 0 \/ r.wrc[i] > r.sizes[i] THEN {"fixed-length writer: bad return code"} ELSE {})
       \cup (IF Len(Accepted(r)) # w THEN {"fixed-length writer: return codes do not add up to the bytes written"} ELSE {})
  ELSE IF r.kind = "wmsg" THEN
       LET ref == Reference("resp", r.msg) IN
       IF ~ref.valid THEN {"written response is not a valid message"}
       ELSE (IF ref.payload # Accepted(r) THEN {"written response: payload differs from the data written"} ELSE {})
            \cup (IF \E i \in 1..Len(r.hdrs) : <<r.hdrs[i][1], r.hdrs[i][2]>> \notin {<<KeyOf(r.msg, ref.hs[j]), ValOf(r.msg, ref.hs[j])>> : j \in 1..Len(ref.hs)}
                  THEN {"written response: an inserted header is missing"} ELSE {})
  ELSE {}

(* ---------------------------------------------------------------- property mode ---------------------------------------------------------------- *)
IsHeadKind(k) == RKind(k) \in HeadKinds
\* every input, malformed or not
General(c, r) ==
  LET o == r.o  w == c.own  n == Len(w)  hk == IsHeadKind(c.kind) IN
     (IF Has(o, "fatal") THEN {"fatal signal: access outside the buffers"} ELSE {})
\cup (IF Has(o, "runaway") THEN {"endless loop on the socket"} ELSE {})
\cup (IF Has(o, "noend") THEN {"reads never reach end-of-body"} ELSE {})
\cup (IF Has(o, "over") THEN {"read wrote or returned more than asked"} ELSE {})
\cup (IF r.mx > StepBound(Len(c.m.bytes)) THEN {"step bound exceeded"} ELSE {})
\cup (IF hk /\ Has(o, "rh") /\ o.rh \notin {0, 1, -1} THEN {"receive_header return code"} ELSE {})
\cup (IF hk /\ Has(o, "rh") /\ o.rh = 0 /\ ~c.ref.complete THEN {"header parsed although the head is incomplete"} ELSE {})
\cup (IF hk /\ Has(o, "rh") /\ o.rh = 0 /\
         ~( /\ InRange(o.ver, n) /\ o.pbo >= 0 /\ o.pbo <= n
            /\ (IF Has(o, "tg") THEN InRange(o.tg, n) ELSE InRange(o.sm, n))
            /\ \A i \in 1..Len(o.hs) : InRange(<<o.hs[i][1], o.hs[i][2]>>, n) /\ InRange(<<o.hs[i][3], o.hs[i][4]>>, n) )
      THEN {"parsed field outside the received bytes"} ELSE {})
\cup (IF Has(o, "body") THEN
        LET rets == Expand(o.rets, 1) IN
           (IF ~IsSubsequence(o.body, 1, w, 1) THEN {"body bytes that are not bytes of the message"} ELSE {})
        \cup (IF ~RetsEnd(rets) /\ ~Has(o, "noend") THEN {"reads do not end with error / end-of-stream"} ELSE {})
        \cup (IF SumSeq(rets, Len(rets)) # Len(o.body) THEN {"return codes do not add up to the bytes delivered"} ELSE {})
      ELSE {})
\* a valid message: everything equals the reference
ValidHead(c, o) ==
  LET w == c.own  ref == c.ref IN
  IF ~Has(o, "rh") \/ o.rh # 0 THEN {"valid message not accepted by receive_header"}
  ELSE (IF Pair(o.ver) # ref.sl.ver THEN {"version differs from the reference"} ELSE {})
  \cup (IF Has(o, "tg") THEN (IF o.vb # ref.sl.verb \/ Pair(o.tg) # ref.sl.tgt THEN {"request line differs from the reference"} ELSE {})
        ELSE (IF o.code # ref.sl.code \/ Pair(o.sm) # ref.sl.sm THEN {"status line differs from the reference"} ELSE {}))
  \cup (IF o.nh # Len(ref.hs) \/ {<<o.hs[i][1], o.hs[i][2], o.hs[i][3], o.hs[i][4]>> : i \in 1..Len(o.hs)} # {ref.hs[i] : i \in 1..Len(ref.hs)}
        THEN {"header multimap differs from the reference"} ELSE {})
  \cup (IF Len(o.hs) = Len(ref.hs) /\ \E i \in 1..Len(o.hs) : i <= 40 /\ Pair(o.lk[i]) \notin RefLookup(w, ref.hs, Sub0(w, o.hs[i][1], o.hs[i][2]))
        THEN {"case-insensitive look-up of a header name fails"} ELSE {})
  \cup (IF ~o.nf THEN {"look-up of an absent name succeeds"} ELSE {})
  \cup (IF o.ch # (WithName(w, ref.hs, S_TE) # {}) THEN {"chunked flag differs from the reference (Transfer-Encoding: chunked present)"} ELSE {})
  \cup (IF ref.fr.f = "length" /\ o.bs # ref.fr.n THEN {"body size differs from Content-Length"} ELSE {})
  \cup (IF o.pbo # ref.bodyOff THEN {"body does not start behind the header terminator"} ELSE {})
ValidBody(c, o) ==
  IF ~Has(o, "body") THEN {}
  ELSE LET rets == Expand(o.rets, 1) IN
       (IF o.body # c.ref.payload THEN {"body differs from the reference payload"} ELSE {})
  \cup (IF ~RetsOK(rets, Len(c.ref.payload)) THEN {"reads are not: payload bytes, then end-of-body (twice)"} ELSE {})
ProblemsO(c, r) ==
  IF c.id # r.id THEN {"trace out of order"}
  ELSE General(c, r) \cup (IF c.ref.valid /\ ~Has(r.o, "fatal") THEN (IF IsHeadKind(c.kind) THEN ValidHead(c, r.o) ELSE {}) \cup ValidBody(c, r.o) ELSE {})
ProblemsD(c, r) ==
  IF Has(r, "more") THEN {}
  ELSE IF Has(r.a, "fatal") \/ Has(r.b, "fatal") THEN {"fatal signal: access outside the buffers (depends on the stale content of the receive buffer)"}
  ELSE {"outcome depends on bytes outside the message (stale content of the receive buffer)"}

(* ---------------------------------------------------------------- large messages ---------------------------------------------------------------- *)
\* the harness builds the message from: start line sl, headers hl[i] = <<name runs, value runs>> written "name: value\r\n", body
\* hl[i] = <<name runs, value runs, offset of the header line>>; the offsets are checked for consistency, not recomputed recursively
NameLen(h) == RunTotal(h[1], Len(h[1]))
ValLen(h) == RunTotal(h[2], Len(h[2]))
HdrLayoutOK(r) ==
  LET nh == Len(r.hl) IN
  IF nh = 0 THEN r.hlen = Len(r.sl) + 2
  ELSE /\ r.hl[1][3] = Len(r.sl)
       /\ \A i \in 1..(nh - 1) : r.hl[i + 1][3] = r.hl[i][3] + NameLen(r.hl[i]) + ValLen(r.hl[i]) + 4
       /\ r.hlen = r.hl[nh][3] + NameLen(r.hl[nh]) + ValLen(r.hl[nh]) + 4 + 2
RetsOKR(rr) == Len(rr) >= 1 /\ rr[Len(rr)] = <<0, 2>> /\ \A i \in 1..(Len(rr) - 1) : rr[i][1] > 0
RECURSIVE SumR(_, _)
SumR(rr, k) == IF k = 0 THEN 0 ELSE SumR(rr, k - 1) + (IF rr[k][1] > 0 THEN rr[k][1] * rr[k][2] ELSE 0)
ProblemsL(r) ==
  LET nh == Len(r.hl)
      sl == RefStatusLine(r.sl, 0, Len(r.sl) - 2)
      expset == {<<r.hl[i][3], NameLen(r.hl[i]), r.hl[i][3] + NameLen(r.hl[i]) + 2, ValLen(r.hl[i])>> : i \in 1..nh}
      chunked == \E i \in 1..nh : NameLen(r.hl[i]) = Len(S_TE) /\ IEq(Expand(r.hl[i][1], 1), S_TE)
      \* the header block surely fits whatever the fragmentation (the last recv may bring MaxTransfer-1 bytes of body along)
      within == /\ r.hlen <= r.cap - MaxTransfer - ReservedIndex
                /\ r.hlen - 1 + MaxTransfer + 8 * nh + (IF chunked THEN LineBuf ELSE 0) < r.cap
      paylen == RunTotal(r.pay, Len(r.pay))
      one(x) ==
        LET o == x.o IN
        IF Has(o, "fatal") THEN {"fatal signal: access outside the buffers"}
        ELSE IF Has(o, "runaway") \/ Has(o, "noend") \/ Has(o, "over") THEN {"endless loop / read beyond the request"}
        ELSE IF x.mx > StepBound(r.hlen + r.blen) THEN {"step bound exceeded"}
        ELSE IF o.rh # 0 THEN (IF within \/ o.rh # -1 THEN {"large message inside the buffer limits not accepted"} ELSE {})
        ELSE (IF Pair(o.ver) # sl.ver \/ o.code # sl.code \/ Pair(o.sm) # sl.sm THEN {"status line differs from the reference"} ELSE {})
        \cup (IF o.nh # nh \/ \E i \in 1..Len(o.hs) : <<o.hs[i][1], o.hs[i][2], o.hs[i][3], o.hs[i][4]>> \notin expset THEN {"header multimap differs from the reference"} ELSE {})
        \cup (IF \E i \in 1..Len(o.hs) : Pair(o.lk[i]) # <<o.hs[i][3], o.hs[i][4]>> THEN {"case-insensitive look-up of a header name fails"} ELSE {})
        \cup (IF o.ch # chunked \/ o.pbo # r.hlen THEN {"framing differs from the reference"} ELSE {})
        \cup (IF Has(o, "bodyr") /\ (o.bodyr # r.pay \/ ~RetsOKR(o.rets) \/ SumR(o.rets, Len(o.rets)) # paylen) THEN {"body differs from the reference payload"} ELSE {})
        \cup (IF ~Has(o, "bodyr") THEN {"no body read"} ELSE {})
  IN IF ~sl.ok \/ ~HdrLayoutOK(r) THEN {"harness: bad start line or header layout"} ELSE UNION {one(r.outs[k]) : k \in 1..Len(r.outs)}

(* ---------------------------------------------------------------- explain mode ---------------------------------------------------------------- *)
\* does the transcription (with KF as configured) reproduce outcome o of the case (cuts, pf, rs, fill)?
Reproduces(c, cuts, pf, rs, fill, o) ==
  LET t == RunCase(c.m, c.m.bytes, cuts, pf, rs, CAP, fill % 256)
      hk == IsHeadKind(c.kind)
      overrun == hk /\ t.H.overrun
      \* writer kinds: the wire bytes are what the transcribed writer produces
      wr == /\ (c.kind = "wchunk" => c.row.msg = ChunkedWriteAll(c.row.data, c.row.sizes))
            /\ (c.kind = "wlen" => LET x == BodyWriteAll(c.row.data, c.row.sizes, c.row.dn, 0) IN c.row.msg = x.wire /\ c.row.wrc = x.rets)
  IN IF ~wr THEN FALSE
     ELSE IF Has(o, "fatal") THEN overrun /\ fill >= 256       \* an unbounded read beyond the data faults when no NUL byte stops it
     ELSE IF hk /\ o.rh # 0 THEN t.rh = o.rh
     ELSE /\ (hk => /\ t.rh = 0
                    /\ Pair(o.ver) = t.H.sl.ver
                    /\ (IF Has(o, "tg") THEN o.vb = t.H.sl.verb /\ Pair(o.tg) = t.H.sl.tgt ELSE o.code = t.H.sl.code /\ Pair(o.sm) = t.H.sl.sm)
                    /\ o.nh = Len(t.H.idx) /\ {<<o.hs[i][1], o.hs[i][2], o.hs[i][3], o.hs[i][4]>> : i \in 1..Len(o.hs)} = {t.H.idx[i] : i \in 1..Len(t.H.idx)}
                    \* look-ups: any entry whose key compares equal; with the deviation icmpYZ the comparison is not a consistent order once
                    \* a name of 8+ bytes contains an upper-case Y/Z: above 16 headers (introsort, not transcribed) the index order is then unknown
                    /\ \/ "icmpYZ" \in KF /\ o.nh > 16 /\ \E i \in 1..Len(o.hs) : o.hs[i][2] >= 8 /\ \E q \in 1..o.hs[i][2] : t.H.buf[o.hs[i][1] + q] \in {89, 90}
                       \/ \A i \in 1..Len(o.hs) : i <= 40 =>
                             LET key == Flip(Sub0(t.H.buf, o.hs[i][1], o.hs[i][2]))
                                 eq == {<<t.H.idx[j][3], t.H.idx[j][4]>> : j \in {j \in 1..Len(t.H.idx) : ICmp(KeyOf(t.H.buf, t.H.idx[j]), key) = 0}}
                                 f == HFind(t.H.buf, t.H.idx, key)          \* the binary search of the transcription
                             IN IF f[1] = -1 THEN Pair(o.lk[i]) = <<-1, 0>> ELSE Pair(o.lk[i]) \in eq     \* which of several equal keys is unspecified
                    /\ o.ch = IsChunked(t.H) /\ o.bs = BodySize(c.m.kind, t.H) /\ o.pbo = t.H.body[1])
          /\ Has(o, "body") /\ o.body = t.body /\ Expand(o.rets, 1) = t.rets
ExplainO(c, r) == IF Reproduces(c, r.ex, r.pf, r.rs, r.fill, r.o) THEN {} ELSE {"not reproduced by the transcription"}
ExplainD(c, r) == IF Has(r, "more") THEN {}
                  ELSE IF Reproduces(c, r.cuts, r.pf, r.rs, r.fa, r.a) /\ Reproduces(c, r.cuts, r.pf, r.rs, r.fb, r.b) THEN {} ELSE {"not reproduced by the transcription"}

(* ---------------------------------------------------------------- the trace ---------------------------------------------------------------- *)
Problems(c, r) ==
  IF r.e = "Fatal" THEN {"harness died: fatal signal"}
  ELSE IF r.e = "M" THEN (IF Mode = "property" THEN ProblemsM(r) ELSE {})
  ELSE IF r.e = "O" THEN (IF Mode = "property" THEN ProblemsO(c, r) ELSE ExplainO(c, r))
  ELSE IF r.e = "D" THEN (IF Mode = "property" THEN ProblemsD(c, r) ELSE ExplainD(c, r))
  ELSE IF r.e = "L" THEN (IF Mode = "property" THEN ProblemsL(r) ELSE {})
  ELSE {}
Init == l = 1 /\ cur = [id |-> 0]
Next == /\ l <= Len(Tr)
        /\ LET r == Tr[l]
               c == IF r.e = "M" THEN Cur(r) ELSE cur
               p == Problems(c, r)
           IN /\ cur' = c
              /\ IF p = {} THEN TRUE ELSE PrintT("MISMATCH " \o ToString(l) \o " " \o ToString(p))
        /\ l' = l + 1
Spec == Init /\ [][Next]_<<l, cur>>
NotAccepted == l <= Len(Tr)
====
