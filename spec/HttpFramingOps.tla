---------------------------- MODULE HttpFramingOps ----------------------------
(* Property C13 (HTTP/1.1 framing) of net/http in PhotonLibOS.                               *)
(*                                                                                          *)
(* Part 1  bytes, the socket stream as a sequence of fragments.                             *)
(* Part 2  REFERENCE: the grammar of a message as the property states it: ParseHead         *)
(*         (start line, header multimap as buffer offsets), Framing, Payload, and what may  *)
(*         be demanded of malformed input.                                                  *)
(* Part 3  TRANSCRIPTION of the code, branch for branch: Parser (parser.h), append_bytes /  *)
(*         receive_bytes (message.cpp), HeadersBase::parse, the sorted index and its        *)
(*         case-insensitive look-up (headers.cpp, estring.cpp), body_size (message.cpp),    *)
(*         BodyReadStream, ChunkedBodyReadStream, BodyWriteStream, ChunkedBodyWriteStream   *)
(*         (body.cpp).                                                                      *)
(* Bytes are integers 0..255; a byte string is a sequence; offsets are 0-based as in C.     *)
(* KF is the set of known deviations of the code from the property that the transcription   *)
(* reproduces when enabled (DESIGN 2.7); the property configurations use KF = {}.           *)
EXTENDS Naturals, Integers, Sequences, FiniteSets, TLC

CONSTANTS MaxTransfer,      \* MAX_TRANSFER_BYTES   message.cpp:32  (4096)
          ReservedIndex,    \* RESERVED_INDEX_SIZE  message.cpp:33  (1024)
          LineBuf,          \* LINE_BUFFER_SIZE     body.cpp:33     (4096)
          KF                \* subset of {"verbStrlen", "staleHeaderRead", "zeroWrite", "icmpYZ", "headChunked"}

CR == 13  LF == 10  SP == 32  HT == 9  COLON == 58  SEMI == 59
CRLF == <<13, 10>>
CRLFCRLF == <<13, 10, 13, 10>>
S_HTTP == <<72,84,84,80,47>>                                              \* "HTTP/"
S_CL == <<67,111,110,116,101,110,116,45,76,101,110,103,116,104>>          \* "Content-Length"
S_TE == <<84,114,97,110,115,102,101,114,45,69,110,99,111,100,105,110,103>> \* "Transfer-Encoding"
S_CHUNKED == <<99,104,117,110,107,101,100>>                               \* "chunked"
S_CONN == <<67,111,110,110,101,99,116,105,111,110>>                       \* "Connection"
S_CLOSE == <<99,108,111,115,101>>                                         \* "close"
S_KA == <<107,101,101,112,45,97,108,105,118,101>>                         \* "keep-alive"
S_TRAILER == <<84,114,97,105,108,101,114>>                                \* "Trailer"
S_CRANGE == <<67,111,110,116,101,110,116,45,82,97,110,103,101>>           \* "Content-Range"
S_10 == <<49,46,48>>                                                      \* "1.0"
Verbs == <<<<85,78,75,78,79,87,78>>, <<68,69,76,69,84,69>>, <<71,69,84>>, <<72,69,65,68>>, <<80,79,83,84>>, <<80,85,84>>,
  <<67,79,78,78,69,67,84>>, <<79,80,84,73,79,78,83>>, <<84,82,65,67,69>>, <<67,79,80,89>>, <<76,79,67,75>>, <<77,75,67,79,76>>,
  <<77,79,86>>, <<80,82,79,80,70,73,78,68>>, <<80,82,79,80,80,65,84,67,72>>, <<83,69,65,82,67,72>>, <<85,78,76,79,67,75>>,
  <<66,73,78,68>>, <<82,69,66,73,78,68>>, <<85,78,66,73,78,68>>, <<65,67,76>>, <<82,69,80,79,82,84>>,
  <<77,75,65,67,84,73,86,73,84,89>>, <<67,72,69,67,75,79,85,84>>, <<77,69,82,71,69>>, <<77,83,69,65,82,67,72>>,
  <<78,79,84,73,70,89>>, <<83,85,66,83,67,82,73,66,69>>, <<85,78,83,85,66,83,67,82,73,66,69>>, <<80,65,84,67,72>>,
  <<80,85,82,71,69>>, <<77,75,67,65,76,69,78,68,65,82>>, <<76,73,78,75>>, <<85,78,76,73,78,75>>>>   \* verb.h, index-1 = enum value
VERB_HEAD == 3

(* ======================================= Part 1: bytes and the stream ======================================= *)
Min(a, b) == IF a < b THEN a ELSE b
Max(a, b) == IF a > b THEN a ELSE b
Sub0(b, off, len) == SubSeq(b, off + 1, off + len)            \* the len bytes at 0-based offset off
From0(b, off) == SubSeq(b, off + 1, Len(b))
StartsAt0(b, i, pat) == i + Len(pat) <= Len(b) /\ \A k \in 1..Len(pat) : b[i + k] = pat[k]
RECURSIVE Find0(_, _, _)          \* 0-based offset of the first occurrence of pat at or after offset i, or -1
Find0(b, i, pat) == IF i + Len(pat) > Len(b) THEN -1 ELSE IF \A k \in 1..Len(pat) : b[i + k] = pat[k] THEN i ELSE Find0(b, i + 1, pat)
RECURSIVE FindChar0(_, _, _)
FindChar0(b, i, c) == IF i >= Len(b) THEN -1 ELSE IF b[i + 1] = c THEN i ELSE FindChar0(b, i + 1, c)
IsDigit(c) == c \in 48..57
IsHex(c) == c \in 48..57 \/ c \in 97..102 \/ c \in 65..70
HexDigit(c) == IF c \in 48..57 THEN c - 48 ELSE IF c \in 97..102 THEN c - 87 ELSE c - 55
Lower(c) == IF c \in 65..90 THEN c + 32 ELSE c
LowerSeq(s) == [i \in 1..Len(s) |-> Lower(s[i])]
IEq(a, b) == LowerSeq(a) = LowerSeq(b)                        \* ASCII case-insensitive equality (RFC 7230 field names)
RECURSIVE DecVal(_, _)            \* value of the first n characters (decimal digits)
DecVal(s, n) == IF n = 0 THEN 0 ELSE DecVal(s, n - 1) * 10 + (s[n] - 48)
RECURSIVE HexVal(_, _)
HexVal(s, n) == IF n = 0 THEN 0 ELSE HexVal(s, n - 1) * 16 + HexDigit(s[n])
RECURSIVE RunLen(_, _, _)         \* length of the maximal run of characters in the set P starting at 1-based index i
RunLen(s, i, P) == IF i <= Len(s) /\ s[i] \in P THEN 1 + RunLen(s, i + 1, P) ELSE 0
Digits == 48..57
HexDigits == (48..57) \cup (97..102) \cup (65..70)
RECURSIVE HexStr(_)               \* printf("%zx")
HexStr(n) == LET d == n % 16  c == IF d < 10 THEN 48 + d ELSE 87 + d IN IF n < 16 THEN <<c>> ELSE HexStr(n \div 16) \o <<c>>
RECURSIVE IsSubsequence(_, _, _, _)   \* a[i..] is a (not necessarily contiguous) subsequence of b[j..]
IsSubsequence(a, i, b, j) == IF i > Len(a) THEN TRUE ELSE IF j > Len(b) THEN FALSE
                             ELSE IF a[i] = b[j] THEN IsSubsequence(a, i + 1, b, j + 1) ELSE IsSubsequence(a, i, b, j + 1)

\* the peer's bytes as they arrive: a sequence of non-empty fragments; recv() never returns bytes of two fragments
Recv(frags, count) ==
  IF frags = <<>> \/ count = 0 THEN [data |-> <<>>, frags |-> frags]
  ELSE LET f == Head(frags) IN
       IF Len(f) <= count THEN [data |-> f, frags |-> Tail(frags)]
       ELSE [data |-> SubSeq(f, 1, count), frags |-> <<SubSeq(f, count + 1, Len(f))>> \o Tail(frags)]
RECURSIVE ReadFull(_, _)          \* IStream::read: count bytes unless the stream ends; ops = number of recv calls
ReadFull(frags, count) ==
  IF count = 0 THEN [data |-> <<>>, frags |-> frags, ops |-> 0]
  ELSE LET r == Recv(frags, count) IN
       IF r.data = <<>> THEN [data |-> <<>>, frags |-> r.frags, ops |-> 1]
       ELSE LET q == ReadFull(r.frags, count - Len(r.data)) IN [data |-> r.data \o q.data, frags |-> q.frags, ops |-> q.ops + 1]
RECURSIVE Flatten(_)
Flatten(frags) == IF frags = <<>> THEN <<>> ELSE Head(frags) \o Flatten(Tail(frags))
\* the fragmentation of b given by ascending cut positions (each in 1..Len(b)-1)
RECURSIVE Fragment(_, _, _)
Fragment(b, cuts, from) == IF from >= Len(b) THEN <<>>
                           ELSE IF cuts = <<>> THEN <<From0(b, from)>>
                           ELSE IF Head(cuts) <= from THEN Fragment(b, Tail(cuts), from)
                           ELSE <<Sub0(b, from, Head(cuts) - from)>> \o Fragment(b, Tail(cuts), Head(cuts))

(* ======================================= Part 2: reference ======================================= *)
NoCRLF(b, from, to) == \A i \in (from + 1)..to : b[i] # CR /\ b[i] # LF            \* bytes at offsets from..to-1
IsTokenChar(c) == c > 32 /\ c < 127 /\ c # COLON
\* lines of the head: <<from, to>> offset pairs of the text between the CRLFs, up to the empty line at offset stop
RECURSIVE LinesFrom(_, _, _)
LinesFrom(b, i, stop) == IF i >= stop THEN <<>> ELSE LET e == Find0(b, i, CRLF) IN <<<<i, e>>>> \o LinesFrom(b, e + 2, stop)

\* status-line = "HTTP/" DIGIT "." DIGIT SP 3DIGIT SP reason-phrase
RefStatusLine(b, from, to) ==
  LET ok == /\ to - from >= 13 /\ StartsAt0(b, from, S_HTTP)
            /\ IsDigit(b[from + 6]) /\ b[from + 7] = 46 /\ IsDigit(b[from + 8]) /\ b[from + 9] = SP
            /\ IsDigit(b[from + 10]) /\ IsDigit(b[from + 11]) /\ IsDigit(b[from + 12]) /\ b[from + 10] # 48 /\ b[from + 13] = SP
            /\ NoCRLF(b, from, to)
  IN IF ~ok THEN [ok |-> FALSE]
     ELSE [ok |-> TRUE, ver |-> <<from + 5, 3>>, code |-> DecVal(Sub0(b, from + 9, 3), 3), sm |-> <<from + 13, to - from - 13>>]
\* request-line = method SP request-target SP "HTTP/" DIGIT "." DIGIT     (method: one the library knows)
RefRequestLine(b, from, to) ==
  LET s1 == FindChar0(b, from, SP)
      s2 == IF s1 = -1 THEN -1 ELSE FindChar0(b, s1 + 1, SP)
      ok == /\ s1 > from /\ s2 > s1 + 1 /\ s2 + 9 = to
            /\ \E v \in 2..Len(Verbs) : Sub0(b, from, s1 - from) = Verbs[v]
            /\ StartsAt0(b, s2 + 1, S_HTTP) /\ IsDigit(b[s2 + 7]) /\ b[s2 + 8] = 46 /\ IsDigit(b[s2 + 9])
            /\ NoCRLF(b, from, to) /\ \A i \in (s1 + 2)..s2 : b[i] > 32 /\ b[i] < 127
  IN IF ~ok THEN [ok |-> FALSE]
     ELSE [ok |-> TRUE, verb |-> (CHOOSE v \in 2..Len(Verbs) : Sub0(b, from, s1 - from) = Verbs[v]) - 1,
           tgt |-> <<s1 + 1, s2 - s1 - 1>>, ver |-> <<s2 + 6, 3>>]
\* header-field = field-name ":" *SP field-value     (value: no CR/LF, no leading HT, no trailing SP/HT)
RefHeaderLine(b, from, to) ==
  LET c == FindChar0(b, from, COLON)
      vs == IF c = -1 \/ c >= to THEN -1 ELSE c + 1 + RunLen(Sub0(b, 0, to), c + 2, {SP})
      ok == /\ c > from /\ c < to /\ \A i \in (from + 1)..c : IsTokenChar(b[i])
            /\ NoCRLF(b, c, to)
            /\ (vs < to => (b[vs + 1] # HT /\ b[to] # SP /\ b[to] # HT))
  IN IF ~ok THEN [ok |-> FALSE] ELSE [ok |-> TRUE, kv |-> <<from, c - from, vs, to - vs>>]

\* kind: "resp" (response to GET), "resph" (response to HEAD), "req"
ParseHead(kind, b) ==
  LET t == Find0(b, 0, CRLFCRLF) IN
  IF t = -1 THEN [ok |-> FALSE, complete |-> FALSE]
  ELSE LET lines == LinesFrom(b, 0, t + 2)
           sl == IF kind = "req" THEN RefRequestLine(b, lines[1][1], lines[1][2]) ELSE RefStatusLine(b, lines[1][1], lines[1][2])
           hl == [i \in 1..(Len(lines) - 1) |-> RefHeaderLine(b, lines[i + 1][1], lines[i + 1][2])]
       IN IF ~sl.ok \/ \E i \in 1..Len(hl) : ~hl[i].ok THEN [ok |-> FALSE, complete |-> TRUE, bodyOff |-> t + 4]
          ELSE [ok |-> TRUE, complete |-> TRUE, sl |-> sl, hs |-> [i \in 1..Len(hl) |-> hl[i].kv], bodyOff |-> t + 4]
KeyOf(b, kv) == Sub0(b, kv[1], kv[2])
ValOf(b, kv) == Sub0(b, kv[3], kv[4])
WithName(b, hs, name) == {i \in 1..Len(hs) : IEq(KeyOf(b, hs[i]), name)}

\* message body length, RFC 7230 3.3.3 for the cases the property names; "bad" = outside the narrow valid grammar
Framing(kind, b, h) ==
  LET te == WithName(b, h.hs, S_TE)  cl == WithName(b, h.hs, S_CL)  co == WithName(b, h.hs, S_CONN)
      val(S) == ValOf(b, h.hs[CHOOSE i \in S : TRUE])
  IN IF Cardinality(te) > 1 \/ Cardinality(cl) > 1 \/ Cardinality(co) > 1 THEN [f |-> "bad"]
     ELSE IF WithName(b, h.hs, S_TRAILER) # {} \/ WithName(b, h.hs, S_CRANGE) # {} THEN [f |-> "bad"]
     ELSE IF te # {} /\ val(te) # S_CHUNKED THEN [f |-> "bad"]
     ELSE IF co # {} /\ val(co) # S_CLOSE /\ val(co) # S_KA THEN [f |-> "bad"]
     ELSE IF cl # {} /\ (val(cl) = <<>> \/ Len(val(cl)) > 9 \/ \E i \in 1..Len(val(cl)) : ~IsDigit(val(cl)[i])) THEN [f |-> "bad"]
     ELSE IF kind = "req" /\ h.sl.verb = VERB_HEAD /\ te # {} THEN [f |-> "bad"]
     ELSE IF kind = "resph" \/ (kind = "req" /\ h.sl.verb = VERB_HEAD) THEN [f |-> "none"]       \* RFC 7230 3.3.3 (1): whatever the headers say
     ELSE IF te # {} THEN [f |-> "chunked"]
     ELSE IF cl # {} THEN [f |-> "length", n |-> DecVal(val(cl), Len(val(cl)))]
     ELSE IF kind = "resp" /\ ((co # {} /\ val(co) = S_CLOSE) \/ (Sub0(b, h.sl.ver[1], 3) = S_10 /\ co = {})) THEN [f |-> "close"]
     ELSE [f |-> "none"]

\* chunked-body = *( 1*HEXDIG [ ";" ext ] CRLF data CRLF ) 1*"0" [ ";" ext ] CRLF CRLF     (no trailers)
BadChunks == [ok |-> FALSE, data |-> <<>>, end |-> 0]
RECURSIVE DecodeChunks(_, _)
DecodeChunks(b, i) ==
  LET e == Find0(b, i, CRLF) IN
  IF e = -1 THEN BadChunks
  ELSE LET nh == RunLen(Sub0(b, 0, e), i + 1, HexDigits) IN
       IF nh = 0 \/ nh > 7 \/ (i + nh < e /\ b[i + nh + 1] # SEMI) THEN BadChunks
       ELSE LET n == HexVal(Sub0(b, i, nh), nh) IN
            IF n = 0 THEN (IF StartsAt0(b, e + 2, CRLF) THEN [ok |-> TRUE, data |-> <<>>, end |-> e + 4] ELSE BadChunks)
            ELSE IF ~StartsAt0(b, e + 2 + n, CRLF) THEN BadChunks
            ELSE LET r == DecodeChunks(b, e + 4 + n) IN
                 IF r.ok THEN [ok |-> TRUE, data |-> Sub0(b, e + 2, n) \o r.data, end |-> r.end] ELSE BadChunks

\* payload of a body given its framing; ok = the bytes are exactly one complete body
Payload(body, fr) ==
  IF fr.f = "length" THEN [ok |-> Len(body) = fr.n, data |-> body]
  ELSE IF fr.f = "chunked" THEN LET d == DecodeChunks(body, 0) IN [ok |-> d.ok /\ d.end = Len(body), data |-> d.data]
  ELSE IF fr.f = "close" THEN [ok |-> TRUE, data |-> body]
  ELSE [ok |-> body = <<>>, data |-> <<>>]

\* the reference for one message: valid = inside the grammar above
Reference(kind, b) ==
  LET h == ParseHead(kind, b) IN
  IF ~h.ok THEN [valid |-> FALSE, complete |-> h.complete]
  ELSE LET fr == Framing(kind, b, h) IN
       IF fr.f = "bad" THEN [valid |-> FALSE, complete |-> TRUE]
       ELSE LET p == Payload(From0(b, h.bodyOff), fr) IN
            IF ~p.ok THEN [valid |-> FALSE, complete |-> TRUE]
            ELSE [valid |-> TRUE, complete |-> TRUE, sl |-> h.sl, hs |-> h.hs, fr |-> fr, bodyOff |-> h.bodyOff, payload |-> p.data]
\* look-up of a name in the reference multimap: the set of admissible answers (values as offset pairs)
RefLookup(b, hs, name) == {<<hs[i][3], hs[i][4]>> : i \in WithName(b, hs, name)}

\* the return codes of reading a body to its end: positive counts, then 0 (end of body), and 0 again
RetsOK(rets, total) ==
  /\ Len(rets) >= 2 /\ rets[Len(rets)] = 0 /\ rets[Len(rets) - 1] = 0
  /\ \A i \in 1..(Len(rets) - 2) : rets[i] > 0
RECURSIVE SumSeq(_, _)
SumSeq(s, n) == IF n = 0 THEN 0 ELSE SumSeq(s, n - 1) + (IF s[n] > 0 THEN s[n] ELSE 0)
\* what every input must satisfy, malformed or not: the reads end (<= 0) and deliver only bytes of the message in order
RetsEnd(rets) == Len(rets) >= 1 /\ rets[Len(rets)] <= 0 /\ \A i \in 1..(Len(rets) - 1) : rets[i] >= 0
StepBound(len) == 4 * len + 16              \* socket calls allowed for an input of len bytes

(* ======================================= Part 3: transcription ======================================= *)
(* ---- parser.h ---- *)
PExtractUntil(b, ptr, c) ==              \* extract_until_char: rstring_view {off,len}; the delimiter is skipped
  LET pos == FindChar0(b, ptr, c) IN
  IF pos = -1 THEN [ptr |-> Len(b), off |-> ptr, len |-> Len(b) - ptr] ELSE [ptr |-> pos + 1, off |-> ptr, len |-> pos - ptr]
PSkipString(b, ptr, s) == IF StartsAt0(b, ptr, s) THEN ptr + Len(s) ELSE ptr
PSkipChar(b, ptr, c) == IF ptr < Len(b) /\ b[ptr + 1] = c THEN ptr + 1 ELSE ptr                      \* skip_chars(c)
PSkipChars(b, ptr, c) == ptr + RunLen(b, ptr + 1, {c})                                  \* skip_chars(c, true)
BIG == 2000000000     \* stands for any value beyond the model's integers (TLC integers are 32-bit)
PExtractInteger(b, ptr) == LET n == RunLen(b, ptr + 1, Digits) IN [ptr |-> ptr + n, val |-> IF n > 9 THEN BIG ELSE DecVal(Sub0(b, ptr, n), n)]

(* ---- message.cpp: Response::parse_status_line / Request::parse_request_line ---- *)
ParseStatusLine(b) ==
  LET p0 == PSkipString(b, 0, S_HTTP)
      v == PExtractUntil(b, p0, SP)
  IN IF v.len >= 6 THEN [rc |-> -1, oob |-> FALSE]
     ELSE LET ci == PExtractInteger(b, v.ptr) IN
          IF ci.val <= 0 \/ ci.val >= 1000 THEN [rc |-> -1, oob |-> FALSE]
          ELSE LET p1 == PSkipChar(b, ci.ptr, SP)
                   sm == PExtractUntil(b, p1, CR)
                   p2 == PSkipChar(b, sm.ptr, LF)
               IN [rc |-> 0, oob |-> FALSE, ptr |-> p2, ver |-> <<v.off, v.len>>, code |-> ci.val, sm |-> <<sm.off, sm.len>>]
StringToVerb(s) == IF \E v \in 1..Len(Verbs) : Verbs[v] = s THEN (CHOOSE v \in 1..Len(Verbs) : Verbs[v] = s) - 1 ELSE 0
ParseRequestLine(b) ==
  LET vs == PExtractUntil(b, 0, SP)
      \* message.cpp:369  `m_buf | verb_str` converts m_buf with strlen(): it reads the buffer up to the first NUL,
      \* beyond the received bytes (KF "verbStrlen"); the intended expression reads only the verb
      oob == "verbStrlen" \in KF
      verb == StringToVerb(Sub0(b, vs.off, vs.len))
  IN IF verb = 0 THEN [rc |-> -1, oob |-> oob]
     ELSE LET tg == PExtractUntil(b, vs.ptr, SP)
              p1 == PSkipString(b, tg.ptr, S_HTTP)
              ve == PExtractUntil(b, p1, CR)
          IN IF ve.len >= 6 THEN [rc |-> -1, oob |-> oob]
             ELSE [rc |-> 0, oob |-> oob, ptr |-> PSkipChar(b, ve.ptr, LF), verb |-> verb, tgt |-> <<tg.off, tg.len>>, ver |-> <<ve.off, ve.len>>]

(* ---- estring.cpp: stricmp_fast (tolower_fast per char below 8 bytes, 8-byte blocks otherwise) ---- *)
Lower8(c) == IF c \in 65..(IF "icmpYZ" \in KF THEN 88 ELSE 90) THEN c + 32 ELSE c   \* tolower_fast8: check_cases(x,'A','X') (KF "icmpYZ")
Sign(x) == IF x < 0 THEN -1 ELSE IF x > 0 THEN 1 ELSE 0
RECURSIVE CmpFrom(_, _, _, _, _)    \* first difference of f(a[i]) and f(b[i]) for i in from..to (1-based), 0 if none
CmpFrom(a, b, from, to, f) == IF from > to THEN 0 ELSE IF f[a[from]] # f[b[from]] THEN Sign(f[a[from]] - f[b[from]]) ELSE CmpFrom(a, b, from + 1, to, f)
LowerF == [c \in 0..255 |-> Lower(c)]
Lower8F == [c \in 0..255 |-> Lower8(c)]
ICmp(a, b) ==
  LET len == Min(Len(a), Len(b)) IN
  IF len < 8 THEN LET x == CmpFrom(a, b, 1, len, LowerF) IN IF x # 0 THEN x ELSE Sign(Len(a) - Len(b))
  ELSE LET x == CmpFrom(a, b, 1, (len \div 8) * 8, Lower8F)
           y == IF x # 0 THEN x ELSE CmpFrom(a, b, len - 7, len, Lower8F)
       IN IF y # 0 THEN y ELSE Sign(Len(a) - Len(b))

(* ---- headers.cpp: HeadersBase::parse, kv_add, std::sort, find (lower_bound) ---- *)
\* b: whole receive buffer content (Len(b) = m_buf_size of the Message); start: offset of the first header line;
\* cap: capacity of the Message buffer; stale: the byte found behind the received data.
\* Offsets in the result are absolute (the code keeps them relative to start).
KvAddFails(n, start, size, cap) == (cap - start) - 8 * (n + 1) <= size - start        \* (char*)(begin - 1) <= m_buf + m_buf_size
RECURSIVE HParse(_, _, _, _, _, _, _)
HParse(b, start, ptr, kvs, cap, stale, oob) ==
  LET atEnd == ptr >= Len(b)
      c0 == IF atEnd THEN stale ELSE b[ptr + 1]                  \* p[0]
  IN IF atEnd /\ "staleHeaderRead" \notin KF THEN [rc |-> -1, kvs |-> kvs, oob |-> oob]   \* intended: stop at the end of the data
     ELSE IF c0 = CR THEN [rc |-> 0, kvs |-> kvs, oob |-> oob \/ atEnd]
     \* at the end of the data with another stale byte every iteration adds an empty pair and stays there: the loop can only
     \* end when kv_add finds the buffer full ("add kv failed")
     ELSE IF atEnd THEN [rc |-> -1, kvs |-> kvs, oob |-> TRUE]
     ELSE LET k == PExtractUntil(b, ptr, COLON)
              p1 == PSkipChars(b, k.ptr, SP)
              v == PExtractUntil(b, p1, CR)
              p2 == PSkipChar(b, v.ptr, LF)
          IN IF KvAddFails(Len(kvs), start, Len(b), cap) THEN [rc |-> -1, kvs |-> kvs, oob |-> oob \/ atEnd]
             ELSE HParse(b, start, p2, Append(kvs, <<k.off, k.len, v.off, v.len>>), cap, stale, oob \/ atEnd)
\* kv_add stores each new pair in front of the previous ones (the index grows down from the end of the buffer), so the
\* array handed to std::sort is in reverse message order.  libstdc++ std::sort of at most 16 elements is __insertion_sort:
\* an element smaller than the first goes to the front, otherwise it is moved left while it is smaller than its neighbour.
\* (Above 16 elements introsort partitions first; the result only differs for equal keys or an inconsistent comparison.)
KLess(b, x, y) == ICmp(KeyOf(b, x), KeyOf(b, y)) < 0
Reverse(q) == [i \in 1..Len(q) |-> q[Len(q) + 1 - i]]
InsStep(b, q, i) ==
  LET val == q[i] IN
  IF KLess(b, val, q[1]) THEN <<val>> \o SubSeq(q, 1, i - 1) \o SubSeq(q, i + 1, Len(q))
  ELSE LET j == CHOOSE j \in 1..(i - 1) : ~KLess(b, val, q[j]) /\ \A k \in (j + 1)..(i - 1) : KLess(b, val, q[k])
       IN SubSeq(q, 1, j) \o <<val>> \o SubSeq(q, j + 1, i - 1) \o SubSeq(q, i + 1, Len(q))
RECURSIVE InsSort(_, _, _)
InsSort(b, q, i) == IF i > Len(q) THEN q ELSE InsSort(b, InsStep(b, q, i), i + 1)
SortKV(b, kvs, n) == InsSort(b, Reverse(kvs), 2)
\* std::lower_bound(kv_begin, kv_end, key, less): binary search as in libstdc++
RECURSIVE LowerBound(_, _, _, _, _)
LowerBound(b, idx, key, first, len) ==
  IF len = 0 THEN first
  ELSE LET half == len \div 2  mid == first + half IN
       IF ICmp(KeyOf(b, idx[mid + 1]), key) < 0 THEN LowerBound(b, idx, key, mid + 1, len - half - 1) ELSE LowerBound(b, idx, key, first, half)
\* HeadersBase::find / get_value: <<off,len>> of the value, or <<-1,0>>
HFind(b, idx, key) ==
  LET it == LowerBound(b, idx, key, 0, Len(idx)) IN
  IF it = Len(idx) \/ ICmp(KeyOf(b, idx[it + 1]), key) # 0 THEN <<-1, 0>> ELSE <<idx[it + 1][3], idx[it + 1][4]>>
HValue(b, idx, key) == LET f == HFind(b, idx, key) IN IF f[1] = -1 THEN <<>> ELSE Sub0(b, f[1], f[2])

(* ---- message.cpp: append_bytes, receive_bytes, body_size, prepare_body_read_stream ---- *)
\* H: [buf, parsed, ...]; returns H' with rc (0 header parsed, 2 more needed, -1 error)
AppendBytes(kind, H, data, cap, stale) ==
  IF H.parsed THEN [H EXCEPT !.rc = -1]                                                      \* double parse
  ELSE IF Len(H.buf) + Len(data) >= cap THEN [H EXCEPT !.rc = -1]                            \* no buffer
  ELSE LET income == Len(H.buf)
           left == Max(income - 3, 0)
           buf == H.buf \o data
           pos0 == Find0(buf, left, CRLFCRLF)             \* whole.find("\r\n\r\n"), whole starts at left
       IN IF pos0 = -1 THEN [H EXCEPT !.buf = buf, !.rc = 2]
          ELSE LET pos == (pos0 - left) + 4 - (income - left)       \* relative to income
                   bodyBegin == income + pos
                   bodyLen == Len(data) - pos
                   sl == IF kind = "req" THEN ParseRequestLine(buf) ELSE ParseStatusLine(buf)
               IN IF sl.rc < 0 THEN [H EXCEPT !.buf = buf, !.rc = -1, !.oob = @ \/ sl.oob, !.overrun = @ \/ sl.oob]
                  ELSE LET hp == HParse(buf, sl.ptr, sl.ptr, <<>>, cap, stale, FALSE) IN
                       IF hp.rc < 0 THEN [H EXCEPT !.buf = buf, !.rc = -1, !.oob = @ \/ sl.oob \/ hp.oob, !.overrun = @ \/ sl.oob]
                       ELSE LET idx == SortKV(buf, hp.kvs, Len(hp.kvs))
                                conn == HValue(buf, idx, S_CONN)
                                abandon == conn = S_CLOSE \/ HValue(buf, idx, S_TRAILER) # <<>>
                                           \/ (Sub0(buf, sl.ver[1], sl.ver[2]) = S_10 /\ conn # S_KA)
                            IN [H EXCEPT !.buf = buf, !.rc = 0, !.parsed = TRUE, !.oob = @ \/ sl.oob \/ hp.oob, !.overrun = @ \/ sl.oob, !.sl = sl, !.idx = idx,
                                         !.body = <<bodyBegin, bodyLen>>, !.abandon = abandon]
\* oob: some byte outside the received data was read; overrun: an unbounded read (it can leave the buffer)
HInit == [buf |-> <<>>, parsed |-> FALSE, rc |-> 2, oob |-> FALSE, overrun |-> FALSE, sl |-> [rc |-> -1], idx |-> <<>>, body |-> <<0, 0>>, abandon |-> FALSE]
\* one call of receive_bytes: result rc 0 parsed / 1 end of stream / 2 partial / -1 error
ReceiveBytes(kind, H, frags, cap, stale) ==
  IF cap - Len(H.buf) <= MaxTransfer + ReservedIndex THEN [H |-> [H EXCEPT !.rc = -1], frags |-> frags, ops |-> 0]
  ELSE LET r == Recv(frags, MaxTransfer) IN
       IF ~H.parsed /\ r.data = <<>> THEN [H |-> [H EXCEPT !.rc = 1], frags |-> r.frags, ops |-> 1]
       ELSE LET a == AppendBytes(kind, H, r.data, cap, stale) IN
            [H |-> IF a.rc # 0 /\ r.data = <<>> THEN [a EXCEPT !.rc = -1] ELSE a, frags |-> r.frags, ops |-> 1]
IsChunked(H) == HValue(H.buf, H.idx, S_TE) = S_CHUNKED
\* Message::prepare_body_read_stream (message.cpp:231) takes the chunked reader whenever the header says chunked, also for the
\* response to a HEAD request, which has no body (KF "headChunked"); intended: HEAD responses go through body_size() = 0
UseChunkedReader(kind, H) == IsChunked(H) /\ (kind # "resph" \/ "headChunked" \in KF)
\* Message::body_size (Content-Range is outside the model); -1 stands for SIZE_MAX (close-delimited)
BodySize(kind, H) ==
  LET cl == HFind(H.buf, H.idx, S_CL) IN
  IF kind = "resph" \/ (kind = "req" /\ H.sl.verb = VERB_HEAD) THEN 0
  ELSE IF cl[1] # -1 THEN LET v == Sub0(H.buf, cl[1], cl[2])  n == RunLen(v, 1, Digits) IN IF n > 9 THEN BIG ELSE DecVal(v, n)
  ELSE IF H.abandon /\ ~IsChunked(H) THEN -1
  ELSE 0
HeadersSpaceRemain(H, cap) == (cap - H.sl.ptr) - (Len(H.buf) - H.sl.ptr) - 8 * Len(H.idx)

(* ---- body.cpp: BodyReadStream ---- *)
BodyInit(partial, remain) == [pb |-> partial, remain |-> IF remain = -1 THEN 0 ELSE remain, cd |-> remain = -1]
BodyRead(B, frags, count0) ==
  LET count1 == IF ~B.cd /\ count0 > B.remain THEN B.remain ELSE count0
      rfr == Min(count1, Len(B.pb))
      count2 == count1 - rfr
      B1 == [B EXCEPT !.pb = SubSeq(@, rfr + 1, Len(@)), !.remain = IF B.cd THEN @ ELSE @ - rfr]
  IN IF count2 > 0
     THEN LET r == ReadFull(frags, count2) IN
          [ret |-> rfr + Len(r.data), data |-> SubSeq(B.pb, 1, rfr) \o r.data, st |-> [B1 EXCEPT !.remain = IF B.cd THEN @ ELSE @ - Len(r.data)],
           frags |-> r.frags, ops |-> r.ops, runaway |-> FALSE]
     ELSE [ret |-> rfr, data |-> SubSeq(B.pb, 1, rfr), st |-> B1, frags |-> frags, ops |-> 0, runaway |-> FALSE]

(* ---- body.cpp: ChunkedBodyReadStream ---- *)
\* C: [lb (m_get_line_buf[0..m_line_size)), cur (m_cursor), rem (m_chunked_remain), fin (m_finish)]
ChunkInit(partial) == [lb |-> partial, cur |-> 0, rem |-> 0, fin |-> FALSE]
HexPrefix(s) == LET n == RunLen(s, 1, HexDigits) IN IF n > 7 THEN BIG ELSE HexVal(s, n)                 \* hex_to_uint64(): 0 when there is no digit
PosNextChunk(C, pos, frags) ==
  LET line == From0(C.lb, pos)
      p == Find0(line, 0, CRLF)
  IN IF p = -1 THEN [ok |-> FALSE, C |-> C, frags |-> frags, ops |-> 0]
     ELSE LET C1 == [C EXCEPT !.rem = HexPrefix(SubSeq(line, 1, p)), !.cur = @ + p + 2] IN
          IF C1.rem # 0 \/ p = 0 THEN [ok |-> TRUE, C |-> C1, frags |-> frags, ops |-> 0]
          ELSE LET C2 == [C1 EXCEPT !.fin = TRUE]
                   br == pos + p + 4 - Len(C.lb)          \* size_t: a negative value is huge (> 2)
               IN IF br < 0 \/ br > 2 \/ br = 0 THEN [ok |-> TRUE, C |-> C2, frags |-> frags, ops |-> 0]
                  ELSE LET r == ReadFull(frags, br) IN [ok |-> TRUE, C |-> C2, frags |-> r.frags, ops |-> r.ops]
Compact(C) == [C EXCEPT !.lb = From0(@, C.cur), !.cur = 0]                      \* memmove of the unread tail to the front
ResetIfDrained(C) == IF C.cur = Len(C.lb) THEN [C EXCEPT !.cur = 0, !.lb = <<>>] ELSE C
RECURSIVE ReadFromLineBuf(_, _, _, _, _, _)
ReadFromLineBuf(C, count, frags, acc, ops, fuel) ==
  IF fuel = 0 THEN [data |-> acc, C |-> C, count |-> count, frags |-> frags, ops |-> ops, runaway |-> TRUE]
  ELSE IF ~(count > 0 /\ C.cur < Len(C.lb) /\ ~C.fin) THEN [data |-> acc, C |-> C, count |-> count, frags |-> frags, ops |-> ops, runaway |-> FALSE]
  ELSE LET n == Min(count, Min(C.rem, Len(C.lb) - C.cur))
           d == acc \o Sub0(C.lb, C.cur, n)
           C1 == [C EXCEPT !.cur = @ + n, !.rem = @ - n]
       IN IF C1.rem = 0
          THEN LET q == PosNextChunk(C1, C1.cur, frags) IN
               IF ~q.ok THEN [data |-> d, C |-> Compact(C1), count |-> count - n, frags |-> frags, ops |-> ops, runaway |-> FALSE]
               ELSE ReadFromLineBuf(ResetIfDrained(q.C), count - n, q.frags, d, ops + q.ops, fuel - 1)
          ELSE ReadFromLineBuf(ResetIfDrained(C1), count - n, frags, d, ops, fuel - 1)
RECURSIVE GncLoop(_, _, _, _)
GncLoop(C, frags, ops, fuel) ==
  IF fuel = 0 THEN [rc |-> 0, C |-> C, frags |-> frags, ops |-> ops, runaway |-> TRUE]
  ELSE IF C.fin THEN [rc |-> 0, C |-> C, frags |-> frags, ops |-> ops, runaway |-> FALSE]
  ELSE LET r == Recv(frags, LineBuf - Len(C.lb)) IN
       IF r.data = <<>> THEN [rc |-> -1, C |-> C, frags |-> r.frags, ops |-> ops + 1, runaway |-> FALSE]        \* "Peer closed"
       ELSE LET C1 == [C EXCEPT !.lb = @ \o r.data] IN
            IF Len(C1.lb) <= 2 THEN GncLoop(C1, r.frags, ops + 1, fuel - 1)
            ELSE LET q == PosNextChunk(C1, 0, r.frags) IN
                 IF q.ok THEN [rc |-> 0, C |-> q.C, frags |-> q.frags, ops |-> ops + 1 + q.ops, runaway |-> FALSE]
                 ELSE GncLoop(q.C, q.frags, ops + 1 + q.ops, fuel - 1)
GetNewChunk(C, frags, fuel) ==
  IF C.cur < Len(C.lb)
  THEN LET q == PosNextChunk(C, C.cur, frags) IN
       IF q.ok THEN [rc |-> 0, C |-> q.C, frags |-> q.frags, ops |-> q.ops, runaway |-> FALSE]
       ELSE GncLoop(Compact(C), frags, 0, fuel)
  ELSE GncLoop(ResetIfDrained(C), frags, 0, fuel)
RECURSIVE ChunkedReadLoop(_, _, _, _, _, _)
ChunkedReadLoop(C, count, frags, acc, ops, fuel) ==
  IF fuel = 0 THEN [ret |-> Len(acc), data |-> acc, st |-> C, frags |-> frags, ops |-> ops, runaway |-> TRUE]
  ELSE IF ~(count > 0 /\ ~C.fin) THEN [ret |-> Len(acc), data |-> acc, st |-> C, frags |-> frags, ops |-> ops, runaway |-> FALSE]
  ELSE LET a == ReadFromLineBuf(C, count, frags, <<>>, 0, fuel)
           fromStream == a.C.rem > 0 /\ a.count > 0
           r == IF fromStream THEN ReadFull(a.frags, Min(a.count, a.C.rem)) ELSE [data |-> <<>>, frags |-> a.frags, ops |-> 0]   \* read_from_stream
           C2 == [a.C EXCEPT !.rem = @ - Len(r.data)]
           count2 == a.count - Len(r.data)
           acc2 == acc \o a.data \o r.data
           ops2 == ops + a.ops + r.ops
       IN IF a.runaway THEN [ret |-> Len(acc2), data |-> acc2, st |-> C2, frags |-> r.frags, ops |-> ops2, runaway |-> TRUE]
          ELSE IF fromStream /\ C2.rem > 0 /\ r.data = <<>> THEN [ret |-> Len(acc2), data |-> acc2, st |-> C2, frags |-> r.frags, ops |-> ops2, runaway |-> FALSE]
          ELSE IF C2.rem = 0
               THEN LET g == GetNewChunk(C2, r.frags, fuel) IN
                    IF g.rc < 0 \/ g.runaway THEN [ret |-> -1, data |-> <<>>, st |-> g.C, frags |-> g.frags, ops |-> ops2 + g.ops, runaway |-> g.runaway]
                    ELSE ChunkedReadLoop(g.C, count2, g.frags, acc2, ops2 + g.ops, fuel - 1)
               ELSE ChunkedReadLoop(C2, count2, r.frags, acc2, ops2, fuel - 1)
ChunkedRead(C, frags, count, fuel) == ChunkedReadLoop(C, count, frags, <<>>, 0, fuel)

(* ---- body.cpp: writers ---- *)
\* ChunkedBodyWriteStream::write: "%zx\r\n" data "\r\n"; close() = write(nullptr, 0) = the last chunk.
\* A caller's write of zero bytes is the same call and ends the body early (KF "zeroWrite"); intended: no output.
ChunkedWrite(data) == IF data = <<>> /\ "zeroWrite" \notin KF THEN <<>> ELSE HexStr(Len(data)) \o CRLF \o data \o CRLF
ChunkedClose == <<48>> \o CRLF \o CRLF
RECURSIVE ChunkedWriteAll(_, _)      \* data written in pieces of the given sizes, then close
ChunkedWriteAll(data, sizes) == IF sizes = <<>> THEN ChunkedClose
                                ELSE ChunkedWrite(SubSeq(data, 1, Head(sizes))) \o ChunkedWriteAll(SubSeq(data, Head(sizes) + 1, Len(data)), Tail(sizes))
\* BodyWriteStream::write clips at the declared size; returns the count written
RECURSIVE BodyWriteAll(_, _, _, _)
BodyWriteAll(data, sizes, size, cnt) ==
  IF sizes = <<>> THEN [wire |-> <<>>, rets |-> <<>>]
  ELSE LET wc == Min(Head(sizes), size - cnt)
           r == BodyWriteAll(SubSeq(data, Head(sizes) + 1, Len(data)), Tail(sizes), size, cnt + wc)
       IN [wire |-> SubSeq(data, 1, wc) \o r.wire, rets |-> <<wc>> \o r.rets]

(* ======================================= Part 4: one whole case ======================================= *)
HeadKinds == {"resp", "resph", "req"}
\* tail: bytes that follow the message on the same connection (the next message); they are not part of it
Follow(m) == IF "tail" \in DOMAIN m THEN m.tail ELSE <<>>
Wire(m) == IF m.kind = "wchunk" THEN ChunkedWriteAll(m.data, m.sizes)
           ELSE IF m.kind = "wlen" THEN BodyWriteAll(m.data, m.sizes, m.dn, 0).wire
           ELSE m.bytes \o Follow(m)
Own(m, w) == SubSeq(w, 1, Len(w) - Len(Follow(m)))        \* the message itself
ReaderKind(m) == IF m.kind = "wchunk" THEN "cbody" ELSE IF m.kind = "wlen" THEN "lbody" ELSE m.kind
\* what the property demands for this message (w: its own bytes, without what follows): [valid, payload, ...]
Expect(m, w) ==
  IF m.kind \in HeadKinds THEN Reference(m.kind, w)
  ELSE IF m.kind = "wchunk" THEN [valid |-> TRUE, payload |-> m.data]
  ELSE IF m.kind = "wlen" THEN [valid |-> TRUE, payload |-> SubSeq(m.data, 1, Min(Len(m.data), m.dn))]   \* short when less than declared was written
  ELSE LET p == Payload(w, IF m.kind = "cbody" THEN [f |-> "chunked"] ELSE IF m.kind = "lbody" THEN [f |-> "length", n |-> m.dn] ELSE [f |-> "close"])
       IN [valid |-> p.ok, payload |-> p.data]

Flip(s) == [i \in 1..Len(s) |-> IF s[i] \in 65..90 THEN s[i] + 32 ELSE IF s[i] \in 97..122 THEN s[i] - 32 ELSE s[i]]
InRange(p, n) == p[1] >= 0 /\ p[2] >= 0 /\ p[1] + p[2] <= n
(* ---------------------------------------------------------------- the same machine as a function ---------------------------------------------------------------- *)
(* RunCase evaluates one whole case (used by Trace_HttpFraming to compare a recorded case of the real code with the          *)
(* transcription, and by FuncAgree of HttpFraming, which ties it to the step machine explored by TLC).                                *)
RECURSIVE HdrLoop(_, _, _, _, _, _)
HdrLoop(kind, h, fr, cap, stale, n) ==
  LET r == ReceiveBytes(kind, h, fr, cap, stale) IN
  IF r.H.rc = 2 THEN HdrLoop(kind, r.H, r.frags, cap, stale, n + r.ops) ELSE [H |-> r.H, frags |-> r.frags, ops |-> n + r.ops]
ReadOnce(rd, fr, size, fuel) == IF rd.t = "chunked" THEN ChunkedRead(rd.st, fr, size, fuel) ELSE BodyRead(rd.st, fr, size)
\* reads with the sizes rsq (cyclically) until a read returns <= 0; after a 0 one more read of rsq[1] (as the harness does)
RECURSIVE ReadLoop(_, _, _, _, _, _, _, _)
ReadLoop(rd, fr, rsq, k, o, rt, n, fuel) ==
  LET r == ReadOnce(rd, fr, rsq[((k - 1) % Len(rsq)) + 1], fuel)
      o1 == IF r.ret > 0 THEN o \o r.data ELSE o
  IN IF r.runaway THEN [body |-> o1, rets |-> Append(rt, r.ret), ops |-> n + r.ops, runaway |-> TRUE]
     ELSE IF r.ret < 0 THEN [body |-> o1, rets |-> Append(rt, -1), ops |-> n + r.ops, runaway |-> FALSE]
     ELSE IF r.ret = 0
          THEN LET q == ReadOnce([rd EXCEPT !.st = r.st], r.frags, rsq[1], fuel) IN
               [body |-> IF q.ret > 0 THEN o1 \o q.data ELSE o1, rets |-> rt \o <<0, IF q.ret < 0 THEN -1 ELSE q.ret>>, ops |-> n + r.ops + q.ops, runaway |-> q.runaway]
          ELSE ReadLoop([rd EXCEPT !.st = r.st], r.frags, rsq, k + 1, o1, Append(rt, r.ret), n + r.ops, fuel)
\* m: message record; w: its wire bytes; cuts: cut positions; pf: first fragment is the partial body (body kinds); rsq: read sizes
RunCase(m, w, cuts, pf, rsq, cap, stale) ==
  LET fr == Fragment(w, cuts, 0)
      k == ReaderKind(m)
      fuel == 4 * Len(w) + 20
  IN IF m.kind \in HeadKinds
     THEN LET h == HdrLoop(m.kind, HInit, fr, cap, stale, 0) IN
          IF h.H.rc # 0 THEN [rh |-> h.H.rc, H |-> h.H, ops |-> h.ops]
          ELSE IF UseChunkedReader(m.kind, h.H) /\ HeadersSpaceRemain(h.H, cap) < LineBuf THEN [rh |-> -1, H |-> h.H, ops |-> h.ops]
          ELSE LET partial == Sub0(h.H.buf, h.H.body[1], h.H.body[2])
                   rd == IF UseChunkedReader(m.kind, h.H) THEN [t |-> "chunked", st |-> ChunkInit(partial)]
                         ELSE [t |-> "plain", st |-> BodyInit(partial, BodySize(m.kind, h.H))]
               IN [rh |-> 0, H |-> h.H] @@ ReadLoop(rd, h.frags, rsq, 1, <<>>, <<>>, h.ops, fuel)
     ELSE LET partial == IF pf /\ fr # <<>> THEN Head(fr) ELSE <<>>
              rest == IF pf /\ fr # <<>> THEN Tail(fr) ELSE fr
              rd == IF k = "cbody" THEN [t |-> "chunked", st |-> ChunkInit(partial)]
                    ELSE [t |-> "plain", st |-> BodyInit(partial, IF k = "lbody" THEN m.dn ELSE -1)]
          IN ReadLoop(rd, rest, rsq, 1, <<>>, <<>>, 0, fuel)

=============================================================================
