SPECIFICATION Spec
CONSTANTS
  TSO = FALSE
  Rounds = 2
INVARIANT MutualExclusion
