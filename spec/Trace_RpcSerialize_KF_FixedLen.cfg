SPECIFICATION Spec
CONSTANTS
  Classify = TRUE
  KF_NestedAligned = FALSE
  KF_MapSlices = FALSE
  KF_FixedLen = TRUE
  KF_ArrayWalk = FALSE
  KF_Checksum = FALSE
INVARIANT NotAccepted
CHECK_DEADLOCK FALSE
