\* C13 valid scope (quick): whole messages, body streams, writers; every single cut position + one byte per recv
SPECIFICATION Spec
CONSTANTS
  MaxTransfer = 4096
  ReservedIndex = 1024
  LineBuf = 4096
  KF = {}
  Scope = "valid-quick"
  Msgs <- ScopeMsgs
  MaxCuts = 1
  Bytewise = TRUE
  ReadSizes = {1, 2, 5, 1000000}
  Cap = 65535
  Stales = {0}
INVARIANTS ScopeValid FragmentationIndependent BodyExactThenEOF BodyPrefix WriterReaderRoundTrip MalformedTerminates InBounds
CHECK_DEADLOCK FALSE
