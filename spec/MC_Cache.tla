---- MODULE MC_Cache ----
EXTENDS Cache
CONSTANTS r1, r2
\* read ranges <<offset, length>> in units; SZ = 7 = 3 blocks of 2 units + a tail of 1 unit
RS_q == {<<1, 4>>, <<3, 5>>, <<0, 2>>, <<6, 2>>, <<7, 1>>}
RS_q3 == {<<1, 4>>, <<3, 5>>, <<6, 2>>}
RS_one == {<<1, 5>>, <<4, 4>>}
RS_all == {<<o, n>> \in (0..7) \X (1..8) : o + n <= 9}
RS_t == {<<0, 7>>, <<1, 4>>, <<3, 5>>, <<0, 2>>, <<2, 2>>, <<4, 3>>, <<6, 2>>, <<7, 1>>, <<5, 1>>}
RS_t2 == RS_t \cup {<<2, 5>>, <<1, 6>>, <<0, 8>>, <<3, 2>>}
RS_p == {<<6, 2>>, <<0, 7>>, <<3, 5>>}
Sym == Permutations({r1, r2})
====
