---------------------------- MODULE SubFSOps ----------------------------
(* fs/path.cpp Path::iterator / Path::level_valid and fs/subfs.cpp PathCat, transcribed;   *)
(* and the declarative reference of property C20 (lexical containment).  A path is a     *)
(* sequence of one-character strings.                                                     *)
EXTENDS Naturals, Integers, Sequences, FiniteSets, TLC

SLASH == "/"
DOT == "."
PATHBUF == 4096                       \* sizeof(PathCat::buf) == PATH_MAX

(* ---- Path::iterator::set : skip slashes, take up to the next slash ---- *)
RECURSIVE SkipSlash(_, _)
SkipSlash(p, i) == IF i <= Len(p) /\ p[i] = SLASH THEN SkipSlash(p, i + 1) ELSE i
RECURSIVE SkipName(_, _)
SkipName(p, i) == IF i <= Len(p) /\ p[i] # SLASH THEN SkipName(p, i + 1) ELSE i
\* component starting the scan at position i: [from, to) ; empty view <=> from = to  (== end())
Comp(p, i) == LET f == SkipSlash(p, i) IN [from |-> f, to |-> SkipName(p, f)]

(* ---- one iteration of the loop in Path::level_valid ---- *)
\* returns the new level, or -1 for "return false"
LevelStep(name, level) ==
  LET size == Len(name) IN
  IF name[1] = DOT /\ size = 1 THEN level                                   \* "."
  ELSE IF name[1] = DOT /\ size = 2 /\ name[2] = DOT THEN level - 1          \* ".."  (< 0: refuse)
  ELSE level + 1                                                            \* any other name

RECURSIVE LevelScan(_, _, _)
LevelScan(p, i, level) ==
  LET c == Comp(p, i) IN
  IF c.from = c.to THEN TRUE
  ELSE LET l2 == LevelStep(SubSeq(p, c.from, c.to - 1), level) IN
       IF l2 < 0 THEN FALSE ELSE LevelScan(p, c.to, l2)
LevelValid(p) == LevelScan(p, 1, 0)

(* ---- SubFileSystem::PathCat ---- *)
\* result: [rejected |-> BOOLEAN, fwd |-> forwarded path]
PathCat(base, p) ==
  IF Len(base) = 0 THEN [rejected |-> FALSE, fwd |-> p]          \* no base configured: passthrough
  ELSE IF Len(p) + Len(base) >= PATHBUF - 2 THEN [rejected |-> TRUE, fwd |-> <<>>]
  ELSE IF ~LevelValid(p) THEN [rejected |-> TRUE, fwd |-> <<>>]
  ELSE [rejected |-> FALSE, fwd |-> base \o p]

(* ---- reference (what C20 states) ---- *)
\* components of p in order (maximal slash-free non-empty runs)
RECURSIVE Comps(_, _)
Comps(p, i) ==
  IF i > Len(p) THEN <<>>
  ELSE IF p[i] = SLASH THEN Comps(p, i + 1)
  ELSE LET j == CHOOSE k \in i..(Len(p)+1) : (k = Len(p)+1 \/ p[k] = SLASH) /\ \A m \in i..(k-1) : p[m] # SLASH
       IN <<SubSeq(p, i, j - 1)>> \o Comps(p, j)
Delta(name) == IF name = <<DOT>> THEN 0 ELSE IF name = <<DOT, DOT>> THEN -1 ELSE 1
RECURSIVE SumDelta(_, _)
SumDelta(cs, k) == IF k = 0 THEN 0 ELSE SumDelta(cs, k - 1) + Delta(cs[k])
\* every prefix of the lexical walk stays at or below the base
StaysInside(p) == LET cs == Comps(p, 1) IN \A k \in 0..Len(cs) : SumDelta(cs, k) >= 0
=============================================================================
