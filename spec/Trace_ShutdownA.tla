---- MODULE Trace_ShutdownA ----
(* C04, last clause: "A thread marked by thread_shutdown() cannot block for more than the documented short bound"       *)
(* (thread/thread.h:145-150: not allowed to sleep or block more than 10 ms, otherwise -1 / EPERM; if it is sleeping when  *)
(* it is marked it is interrupted with EPERM).  Executions of h_sync --prim shutdown.  Per target thread the mark is      *)
(* "off" | "ton" (thread_shutdown(th,true) invoked, not returned) | "on" | "toff"; a sleep is judged by what happened     *)
(* between its Inv and its Resp:                                                                                          *)
(*   invoked while "on" and still "on":     returns -1 / EPERM, long before the 5 s it asked for;                         *)
(*   a shutdown(true) completed during it:  returns -1 / EPERM likewise (it was interrupted), or 0 after its full time      *)
(*                                          (the deadline had already passed when the mark arrived);                         *)
(*   "off" throughout:                      ordinary sleep, returns 0 after at least the requested time;                   *)
(*   anything else (a mark in transition):  any result.                                                                   *)
(* That a marked thread keeps making progress is checked by the harness through progress (three more sleeps within 10 s,  *)
(* else a Hang event, which has no action here).                                                                          *)
EXTENDS Naturals, Integers, Sequences, FiniteSets, TLC, Json, IOUtils
Tr == ndJsonDeserialize(IOEnv.TRACE)
T == 1..8
EPERM == 1
Bound == 2000000      \* us: far above 10 ms + scheduling noise, far below the 5 s requested
NoSleep == [us |-> -1, m |-> "none", hit |-> FALSE, dirty |-> FALSE]
VARIABLES l, mark, pend
vars == <<l, mark, pend>>
Init == l = 1 /\ mark = [t \in T |-> "off"] /\ pend = [t \in T |-> NoSleep] /\ TLCSet(1, 0)
Ev(e) == l <= Len(Tr) /\ Tr[l].e = e /\ l' = l + 1
R == Tr[l]
Reset == Ev("Reset") /\ mark' = [t \in T |-> "off"] /\ pend' = [t \in T |-> NoSleep]
Inv == /\ Ev("Inv") /\ R.op = "usleep" /\ pend[R.t].us = -1
       /\ pend' = [pend EXCEPT ![R.t] = [us |-> R.us, m |-> mark[R.t], hit |-> FALSE, dirty |-> FALSE]] /\ UNCHANGED mark
ShutInv == /\ Ev("ShutInv") /\ mark[R.target] = (IF R.flag THEN "off" ELSE "on")
           /\ mark' = [mark EXCEPT ![R.target] = IF R.flag THEN "ton" ELSE "toff"]
           /\ pend' = [pend EXCEPT ![R.target].dirty = IF R.flag THEN @ ELSE TRUE]
ShutResp == /\ Ev("ShutResp") /\ mark[R.target] = (IF R.flag THEN "ton" ELSE "toff")
            /\ mark' = [mark EXCEPT ![R.target] = IF R.flag THEN "on" ELSE "off"]
            /\ pend' = [pend EXCEPT ![R.target].hit = IF R.flag /\ pend[R.target].us # -1 THEN TRUE ELSE @]
\* the harness releases a thread that went into a 5 s sleep just before it was unmarked
Kick == Ev("Kick") /\ pend' = [pend EXCEPT ![R.target].dirty = TRUE] /\ UNCHANGED mark
Resp == /\ Ev("Resp") /\ R.op = "usleep" /\ pend[R.t].us # -1
        /\ LET p == pend[R.t] IN
           IF ~p.dirty /\ mark[R.t] = "on" /\ p.m = "on"
           THEN R.r = -1 /\ R.en = EPERM /\ (p.us >= Bound => R.dt < Bound)
           ELSE IF ~p.dirty /\ mark[R.t] = "on" /\ p.hit
           THEN IF p.us >= Bound THEN R.r = -1 /\ R.en = EPERM /\ R.dt < Bound     \* asleep for 5 s (or not asleep yet): interrupted / capped
                ELSE \/ R.r = -1 /\ R.en = EPERM
                     \/ R.r = 0 /\ R.dt >= p.us      \* a short sleep whose time was already up when the mark arrived (thread READY)
           ELSE IF ~p.dirty /\ p.m = "off" /\ mark[R.t] = "off" /\ ~p.hit
           THEN R.r = 0 /\ R.dt >= p.us
           ELSE R.r \in {0, -1}
        /\ pend' = [pend EXCEPT ![R.t] = NoSleep] /\ UNCHANGED mark
\* h_sync --prim starve: a finite sleeper under a storm of cross-vCPU wake-ups on its vCPU.  `late` = scheduling rounds of that
\* vCPU in which another thread ran with the runtime clock already past the sleeper's deadline while the sleeper had not run:
\* "no later than the first scheduling round after its deadline" allows the round in progress at the deadline, the round that
\* resumes both threads, and two of slack.
Starve == Ev("Starve") /\ R.done /\ R.r = 0 /\ R.dt >= R.us /\ R.late <= 4 /\ UNCHANGED <<mark, pend>>
Quiesce == Ev("Quiesce") /\ \A t \in T : pend[t].us = -1 /\ UNCHANGED <<mark, pend>>
Next == Reset \/ Inv \/ ShutInv \/ ShutResp \/ Kick \/ Resp \/ Starve \/ Quiesce
Spec == Init /\ [][Next]_vars
NotAccepted == l <= Len(Tr)
Progress == TLCSet(1, IF TLCGet(1) < l THEN l ELSE TLCGet(1))
Post == PrintT(<<"MAXL", TLCGet(1), Len(Tr)>>)
====
