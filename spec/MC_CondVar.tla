---- MODULE MC_CondVar ----
EXTENDS CondVar
CONSTANTS c1, c2, p1, p2
====
