\* unbuffered, repaired protocol (KF = {}), 2 senders x 2 receivers x 1 call, all call kinds, no close() (close(): thorough tier)
SPECIFICATION Spec
CONSTANTS
  Cap = 0
  S = {"s1", "s2"}
  R = {"r1", "r2"}
  NV = 1
  NR = 1
  SKinds = {"inf", "timed", "try"}
  RKinds = {"inf", "timed", "try"}
  WithClose = FALSE
  KF = {}
INVARIANTS TypeOK DeliveredExactlyOnce PerSenderOrder FalseOnlyOnCloseOrTimeout DrainAfterClose ReleasedWhenPartnerExists ReleasedOnClose
CHECK_DEADLOCK FALSE
