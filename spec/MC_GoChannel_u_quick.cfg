\* MC_GoChannel_u_quick.cfg2
SPECIFICATION Spec
CONSTANTS
  Cap = 0
  S = {"s1", "s2"}
  R = {"r1", "r2"}
  NV = 1
  NR = 1
  SKinds = {"inf", "timed", "try"}
  RKinds = {"inf", "timed", "try"}
  WithClose = TRUE
  KF = {}
INVARIANTS TypeOK DeliveredExactlyOnce PerSenderOrder FalseOnlyOnCloseOrTimeout DrainAfterClose ReleasedWhenPartnerExists ReleasedOnClose
CHECK_DEADLOCK FALSE
