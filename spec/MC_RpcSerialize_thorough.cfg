SPECIFICATION MCSpec
CONSTANTS
  Msgs <- MsgsThorough
  MaxParts = 3
  MaxPartsH = 2
  MaxDev = 2
  Modes <- ModesAll
  KF_NestedAligned = FALSE
  KF_MapSlices = FALSE
  KF_FixedLen = FALSE
  KF_ArrayWalk = FALSE
  KF_Checksum = FALSE
INVARIANTS RoundTrip HostileContained ChecksumRejects NoCrash FuncAgree IdsInjective
CHECK_DEADLOCK FALSE
