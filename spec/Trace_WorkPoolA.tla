---- MODULE Trace_WorkPoolA ----
(* Tier-A trace validation of photon::WorkPool (C08) on recorded executions (harness/h_workpool.cpp).  The abstract pool the  *)
(* user relies on - the projection of spec/WorkPool.tla on what a user can observe:                                          *)
(*   every task handed over by call() / async_call() (CallInv / AsyncInv) starts exactly once (TaskStart, never before it     *)
(*   was handed over, never twice) and ends once (TaskEnd), on one of the pool's vCPUs (v in 1..number of pool vCPUs: the      *)
(*   harness numbers the vCPUs that are not its own in order of appearance; its own are negative, "no vCPU" is 0);             *)
(*   call() returns (CallResp) only after its task ended - also when the caller is interrupted (Intr) meanwhile;                                                                      *)
(*   the functor of an async_call() is deleted exactly once (TaskDeleted), after its task ended;                               *)
(*   ~WorkPool() returns (PoolDtorResp) only after every task that had been handed over ended and, if asynchronous, was         *)
(*   deleted; nothing starts, ends or is deleted after that;                                                                   *)
(*   join_current_vcpu_into_workpool() returns 0 and only once the pool is being destroyed;                                    *)
(*   at Quiesce every call has returned and the pool is gone.                                                                  *)
(* No event is accepted for a crash (Fatal), a hang (Hang) or a task object found corrupted (BadTask): they reject the trace.  *)
(* Harness discipline that is assumed (and checked): tasks are handed over only between PoolCtorResp and PoolDtorInv, and       *)
(* PoolDtorInv comes after every hand-over has returned (AsyncResp / CallResp logged).                                         *)
EXTENDS Naturals, Integers, Sequences, FiniteSets, TLC, Json, IOUtils
Tr == ndJsonDeserialize(IOEnv.TRACE)
T == 1..40
NoTask == [ph |-> "none", kind |-> "none", resp |-> FALSE, del |-> FALSE]
VARIABLES l, task, pool, nvt
vars == <<l, task, pool, nvt>>
Init == l = 1 /\ task = [t \in T |-> NoTask] /\ pool = "none" /\ nvt = 0 /\ TLCSet(1, 0)
Ev(e) == l <= Len(Tr) /\ Tr[l].e = e /\ l' = l + 1
R == Tr[l]
Reset == Ev("Reset") /\ task' = [t \in T |-> NoTask] /\ pool' = "none" /\ nvt' = R.nv + R.ext
PoolCtorInv == Ev("PoolCtorInv") /\ pool = "none" /\ pool' = "ctor" /\ UNCHANGED <<task, nvt>>
PoolCtorResp == Ev("PoolCtorResp") /\ pool = "ctor" /\ pool' = "live" /\ UNCHANGED <<task, nvt>>
Submit(e, k) == /\ Ev(e) /\ pool = "live" /\ R.id \in T /\ task[R.id].ph = "none"
                /\ task' = [task EXCEPT ![R.id] = [NoTask EXCEPT !.ph = "inv", !.kind = k]] /\ UNCHANGED <<pool, nvt>>
CallInv == Submit("CallInv", "call")
AsyncInv == Submit("AsyncInv", "async")
TaskStart == /\ Ev("TaskStart") /\ R.id \in T /\ task[R.id].ph = "inv" /\ pool \in {"live", "dtor"}
             /\ R.v >= 1 /\ R.v <= nvt
             /\ task' = [task EXCEPT ![R.id].ph = "started"] /\ UNCHANGED <<pool, nvt>>
TaskEnd == /\ Ev("TaskEnd") /\ R.id \in T /\ task[R.id].ph = "started" /\ pool \in {"live", "dtor"}
           /\ R.v >= 1 /\ R.v <= nvt
           /\ task' = [task EXCEPT ![R.id].ph = "ended"] /\ UNCHANGED <<pool, nvt>>
CallResp == /\ Ev("CallResp") /\ R.id \in T /\ task[R.id].kind = "call" /\ task[R.id].ph = "ended" /\ ~task[R.id].resp
            /\ task' = [task EXCEPT ![R.id].resp = TRUE] /\ UNCHANGED <<pool, nvt>>
AsyncResp == /\ Ev("AsyncResp") /\ R.id \in T /\ task[R.id].kind = "async" /\ task[R.id].ph # "none" /\ ~task[R.id].resp
             /\ task' = [task EXCEPT ![R.id].resp = TRUE] /\ UNCHANGED <<pool, nvt>>
TaskDeleted == /\ Ev("TaskDeleted") /\ R.id \in T /\ task[R.id].kind = "async" /\ task[R.id].ph = "ended" /\ ~task[R.id].del
               /\ pool \in {"live", "dtor"}
               /\ task' = [task EXCEPT ![R.id].del = TRUE] /\ UNCHANGED <<pool, nvt>>
PoolDtorInv == /\ Ev("PoolDtorInv") /\ pool = "live" /\ \A t \in T : task[t].ph # "none" => task[t].resp
               /\ pool' = "dtor" /\ UNCHANGED <<task, nvt>>
PoolDtorResp == /\ Ev("PoolDtorResp") /\ pool = "dtor"
                /\ \A t \in T : task[t].ph # "none" => (task[t].ph = "ended" /\ (task[t].kind = "async" => task[t].del))
                /\ pool' = "gone" /\ UNCHANGED <<task, nvt>>
ExtJoinInv == Ev("ExtJoinInv") /\ pool = "live" /\ UNCHANGED <<task, pool, nvt>>
ExtJoinResp == Ev("ExtJoinResp") /\ R.r = 0 /\ pool \in {"dtor", "gone"} /\ UNCHANGED <<task, pool, nvt>>
\* the harness interrupted a photon submitter (thread_interrupt, EINTR) that was inside call(): changes nothing
Intr == Ev("Intr") /\ pool = "live" /\ UNCHANGED <<task, pool, nvt>>
Quiesce == /\ Ev("Quiesce") /\ pool = "gone"
           /\ \A t \in T : task[t].ph # "none" => task[t].resp
           /\ UNCHANGED <<task, pool, nvt>>
Next == \/ Reset \/ PoolCtorInv \/ PoolCtorResp \/ CallInv \/ AsyncInv \/ TaskStart \/ TaskEnd \/ CallResp \/ AsyncResp \/ TaskDeleted
        \/ PoolDtorInv \/ PoolDtorResp \/ ExtJoinInv \/ ExtJoinResp \/ Intr \/ Quiesce
Spec == Init /\ [][Next]_vars
NotAccepted == l <= Len(Tr)
Progress == TLCSet(1, IF TLCGet(1) < l THEN l ELSE TLCGet(1))
Post == PrintT(<<"MAXL", TLCGet(1), Len(Tr)>>)
Short == [l |-> l]
====
