SPECIFICATION Spec
CONSTANTS
  Prod = {1, 2}
  Cons = {3}
  Cap = 2
  NSend = 3
  NRecv = 2
  TwoStep = TRUE
  PhotonSend = TRUE
  Timed = TRUE
  Bug = "none"
INVARIANTS NotStuckNonEmpty NotStuckNonFull PendingMirrorsCount CountersSane Ledger
