---- MODULE RpcOoo ----
(* C11.  Model of the RPC client side: the out-of-order engine (rpc/out-of-order-execution.cpp: issue_operation 61-106,     *)
(* wait_completion 113-226) under rpc::StubImpl (rpc/rpc.cpp: do_call 159-183, do_send 65-92, do_recv_header 93-117,        *)
(* do_recv_body 118-137), transcribed as it is.                                                                               *)
(*                                                                                                                          *)
(* Scheduling.  A stub lives on ONE vCPU, so photon threads interleave only where a thread blocks: mutex_w.lock(), the      *)
(* stream's writev / read / readv, m_wait.wait().  `cur` is the thread that is running; the code between two blocking        *)
(* points is a run of steps of that thread alone (its pc walks through the critical sections: m_mutex_map sections, the      *)
(* phaselock sections, the callbacks), every other thread and the environment move only while cur = None.  m_mutex_map and   *)
(* the phaselock spinlocks are never held across a blocking point (m_wait.wait releases the phaselock in the same step in    *)
(* which the thread goes to sleep), so on one vCPU they are never contended; they appear as the step boundaries, not as      *)
(* variables.  mutex_w is held across writev and mutex_r across read / readv: they are variables.                            *)
(*                                                                                                                          *)
(* Environment.  Stream: the peer answers every request it has received, in any order, and may add unknown / duplicate tags  *)
(* (MaxBogus); header and body of a response are separate arrivals (DeliverH / DeliverB), so any step - in particular a       *)
(* deadline - can fall between them; a read or write can fail (MaxErr); once the stub has shut the stream down every         *)
(* transfer fails.  Clock: the deadline of a caller in Timed may pass at any scheduling point (Expire, at most MaxExpire      *)
(* times per behaviour); a stream transfer that was given the remaining time of an expired deadline may fail by timeout OR    *)
(* still complete (streams bound each wait, not the sum of the waits of a fragmented transfer).                              *)
(*                                                                                                                          *)
(* Ghosts: mytag (the tag allocated to the call; args.tag itself is overwritten when the call reads headers), buf (identity  *)
(* of the payload in the call's response buffers), claimedBy / erasedBy (who took the call's tag out of the map), retpath     *)
(* (how the call returned), uar (accesses to the context or buffers of a call that has returned).                            *)
(*                                                                                                                          *)
(* Variant: "asis" = the code; "patched" = proposed repair of F4 (a follower whose wait ends by timeout and whose tag has     *)
(* already been taken out of the map by the reader keeps waiting - stay[c]: its further waits in m_wait have no deadline,     *)
(* args.timeout itself is untouched - until the reader has marked it COLLECTED); "nonotify" (a returning caller does not notify m_wait) and "collectself" (the reader collects through its own  *)
(* context instead of the target's) are deliberately broken variants that the invariants must catch.  "patched2" = patched   *)
(* + a sketch of a repair of C11b (issue_operation keeps a phase that is already COLLECTED; wait_completion treats "issued    *)
(* but no longer in the map" as "a reader is collecting into this context" and waits for COLLECTED instead of EINVAL).        *)
EXTENDS Naturals, Integers, Sequences, FiniteSets, TLC
CONSTANTS C, Timed, MaxExpire, MaxErr, MaxBogus, Variant, EarlyResponse
ASSUME Timed \subseteq C /\ Variant \in {"asis", "patched", "patched2", "nonotify", "collectself"}
None == "none"
UNKNOWN == 99                       \* a tag the engine never allocated
GARBAGE == 98                       \* what args.tag holds after body bytes were read as a header
Tags == 1..Cardinality(C)
Sym == Permutations(C)              \* callers are interchangeable when Timed = C (used as SYMMETRY by the configurations)

VARIABLES pc, cur, atag, otag, mtag, map, mw, mr, cvq, wake, phase, th, ret, hdr, targ, stay,
          expired, nexp, wire, pendB, sent, answered, nbogus, nerr, shut,
          buf, res, mytag, claimedBy, erasedBy, retpath, uar
eng == <<atag, otag, mtag, map, mw, mr, cvq, wake, phase, th, ret, hdr, targ, stay>>
env == <<expired, nexp, wire, pendB, sent, answered, nbogus, nerr, shut>>
envx == <<expired, nexp, wire, pendB, answered, nbogus, nerr, shut>>      \* env without `sent`
gho == <<buf, res, mytag, claimedBy, erasedBy, retpath, uar>>
vars == <<pc, cur, eng, env, gho>>

H(t) == [k |-> "H", t |-> t]
B(t) == [k |-> "B", t |-> t]

Init ==
  /\ pc = [c \in C |-> "idle"] /\ cur = None
  /\ atag = [c \in C |-> 0] /\ otag = [c \in C |-> 0] /\ mtag = 0 /\ map = {}
  /\ mw = None /\ mr = None /\ cvq = <<>> /\ wake = [c \in C |-> None]
  /\ phase = [c \in C |-> "BEFORE"] /\ th = [c \in C |-> None] /\ ret = [c \in C |-> -1]
  /\ hdr = 0 /\ targ = [c \in C |-> None] /\ stay = [c \in C |-> FALSE]
  /\ expired = [c \in C |-> FALSE] /\ nexp = 0 /\ wire = <<>> /\ pendB = 0
  /\ sent = {} /\ answered = {} /\ nbogus = 0 /\ nerr = 0 /\ shut = FALSE
  /\ buf = [c \in C |-> 0] /\ res = [c \in C |-> None] /\ mytag = [c \in C |-> 0]
  /\ claimedBy = [c \in C |-> None] /\ erasedBy = [c \in C |-> None] /\ retpath = [c \in C |-> None]
  /\ uar = {}

Goto(c, s) == pc' = [pc EXCEPT ![c] = s]
Lookup(t) == {e \in map : e[1] = t}                      \* m_map.find(t)
Owner(t) == (CHOOSE e \in Lookup(t) : TRUE)[2]
Returned(c) == pc[c] = "done"
\* an access by `a` to the context / buffers of call c: recorded when c has already returned
Touch(a, c, what) == IF Returned(c) THEN {<<a, c, what, retpath[c]>>} ELSE {}
\* m_map.erase(t) by caller a
EraseTag(a, t) == /\ map' = map \ Lookup(t)
                  /\ erasedBy' = [d \in C |-> IF \E e \in Lookup(t) : e[2] = d THEN a ELSE erasedBy[d]]
\* m_wait.notify_one(): the thread at the head of the wait queue (if any) is dequeued and made ready
NotifyOne == IF cvq = <<>> \/ Variant = "nonotify" THEN UNCHANGED <<cvq, wake>>
             ELSE cvq' = Tail(cvq) /\ wake' = [wake EXCEPT ![Head(cvq)] = "notified"]
RemoveSeq(s, x) == SelectSeq(s, LAMBDA y : y # x)

(* ------------------------------------------------------------------------------------------------ return paths *)
\* return from do_call; how \in {"ok","fail"}; path = ghost label
Finish(c, how, path) == /\ Goto(c, "done") /\ cur' = None /\ res' = [res EXCEPT ![c] = how]
                        /\ retpath' = [retpath EXCEPT ![c] = path]

(* ------------------------------------------------------------------------------------------------ do_call / issue *)
\* rpc.cpp:159-163  (the stub's rwlock is only taken for writing by set_stream(), which is not modelled)
Call(c) == /\ pc[c] = "idle" /\ cur = None
           /\ IF expired[c] THEN Finish(c, "fail", "early") /\ UNCHANGED <<eng, env, buf, mytag, claimedBy, erasedBy, uar>>
              ELSE IF mw = None
                   THEN mw' = c /\ Goto(c, "issue") /\ cur' = c
                        /\ UNCHANGED <<atag, otag, mtag, map, mr, cvq, wake, phase, th, ret, hdr, targ, stay, env, gho>>
                   ELSE Goto(c, "lockw") /\ cur' = None /\ UNCHANGED <<eng, env, gho>>
\* SCOPED_LOCK(m_mutex_w) after having waited (ooo:63)
LockW(c) == /\ pc[c] = "lockw" /\ cur = None /\ mw = None
            /\ mw' = c /\ Goto(c, "issue") /\ cur' = c
            /\ UNCHANGED <<atag, otag, mtag, map, mr, cvq, wake, phase, th, ret, hdr, targ, stay, env, gho>>
\* ooo:64-94 up to the writev inside do_send (rpc.cpp:65-85)
Issue(c) ==
  /\ pc[c] = "issue" /\ cur = c
  /\ mtag' = mtag + 1 /\ atag' = [atag EXCEPT ![c] = mtag + 1] /\ mytag' = [mytag EXCEPT ![c] = mtag + 1]
  /\ th' = [th EXCEPT ![c] = c] /\ phase' = [phase EXCEPT ![c] = "BEFORE"] /\ ret' = [ret EXCEPT ![c] = 0]
  /\ IF expired[c] \/ shut
     THEN \* do_send fails before / at the write: ooo:95-99 erase, return -1  (the tag was inserted and is erased in this same run)
          /\ UNCHANGED <<map, erasedBy>> /\ mw' = None /\ Finish(c, "fail", "sendfail")
          /\ UNCHANGED <<otag, mr, cvq, wake, hdr, targ, stay, env, buf, claimedBy, uar>>
     ELSE /\ map' = map \cup {<<mtag + 1, c>>} /\ Goto(c, "sending") /\ cur' = None
          /\ UNCHANGED <<otag, mw, mr, cvq, wake, hdr, targ, stay, env, buf, res, claimedBy, erasedBy, retpath, uar>>
\* environment: the stream has taken the request (the peer can answer from now on); the writer becomes ready
\* (EarlyResponse = FALSE: the request reaches the peer at the instant the writer resumes - kernel sockets, where the last
\*  send() is made by the writer itself and nothing yields between it and wait_completion; TRUE: a stream whose writev returns
\*  later than the peer can see the data - a wrapper that sleeps after the last fragment, an acknowledged transport)
StreamTakesRequest(c) == /\ EarlyResponse /\ pc[c] = "sending" /\ cur = None /\ ~shut
                         /\ sent' = sent \cup {atag[c]} /\ Goto(c, "sent")
                         /\ UNCHANGED <<cur, eng, expired, nexp, wire, pendB, answered, nbogus, nerr, shut, gho>>
\* the write fails (injected error, the stream was shut down meanwhile, or the write timed out): rpc.cpp:86-90, ooo:95-99
WriteFail(c) == /\ pc[c] = "sending" /\ cur = None
                /\ \/ shut /\ UNCHANGED nerr
                   \/ expired[c] /\ UNCHANGED nerr
                   \/ nerr < MaxErr /\ nerr' = nerr + 1
                /\ shut' = TRUE /\ EraseTag(c, atag[c]) /\ mw' = None /\ Finish(c, "fail", "sendfail")
                /\ UNCHANGED <<atag, otag, mtag, mr, cvq, wake, phase, th, ret, hdr, targ, stay,
                               expired, nexp, wire, pendB, sent, answered, nbogus, buf, mytag, claimedBy, uar>>

(* ------------------------------------------------------------------------------------------------ wait_completion *)
\* the loop head of wait_completion under the caller's own phaselock (ooo:130-166), entered with phase = p:
\* try to become the reader, else park in m_wait (the phaselock is released by the same step that puts the thread to sleep)
TryReader(c) ==
  IF mr = None
  THEN /\ mr' = c /\ otag' = [otag EXCEPT ![c] = atag[c]] /\ Goto(c, "ldr") /\ cur' = c /\ UNCHANGED <<cvq, wake>>
  ELSE /\ cvq' = Append(cvq, c) /\ wake' = [wake EXCEPT ![c] = None] /\ Goto(c, "parked") /\ cur' = None
       /\ UNCHANGED <<mr, otag>>
\* the writer resumes: ooo:101-105 (phase := ISSUED, unconditionally), mutex_w released; rpc.cpp:172 wait_completion:
\* ooo:115-122 map check, 125-146 phase switch and try_lock(mutex_r)
SendDone(c) ==
  /\ cur = None
  /\ \/ pc[c] = "sent" /\ UNCHANGED sent
     \/ ~EarlyResponse /\ pc[c] = "sending" /\ ~shut /\ sent' = sent \cup {atag[c]}
  /\ mw' = None
  /\ IF Variant = "patched2" /\ phase[c] = "COLLECTED"
     THEN \* repair of C11b: the phase is not overwritten; "result already collected before wait" (ooo:132-136) returns it
          /\ NotifyOne /\ Finish(c, IF ret[c] > 0 THEN "ok" ELSE "fail", "collected_early")
          /\ UNCHANGED <<atag, otag, mtag, map, mr, phase, th, ret, hdr, targ, stay, envx, buf, mytag, claimedBy, erasedBy, uar>>
     ELSE IF Lookup(atag[c]) = {} /\ Variant # "patched2"
     THEN \* "context not found in map" (the response was collected before the send returned): EINVAL, no notify (DEFER at :123 not reached)
          /\ phase' = [phase EXCEPT ![c] = "ISSUED"] /\ Finish(c, "fail", IF claimedBy[c] # None /\ phase[c] # "COLLECTED" THEN "notinmap_claimed" ELSE "notinmap")
          /\ UNCHANGED <<atag, otag, mtag, map, mr, cvq, wake, th, ret, hdr, targ, stay, envx, buf, mytag, claimedBy, erasedBy, uar>>
     ELSE \* (patched2: issued but no longer in the map = a reader is collecting into this context: wait for it without deadline)
          /\ phase' = [phase EXCEPT ![c] = "WAITING"] /\ th' = [th EXCEPT ![c] = c]
          /\ stay' = [stay EXCEPT ![c] = (Lookup(atag[c]) = {})]
          /\ TryReader(c)
          /\ UNCHANGED <<atag, mtag, map, ret, hdr, targ, envx, gho>>

\* the reader starts do_completion = do_recv_header (rpc.cpp:93-103)
LdrStart(c) ==
  /\ pc[c] = "ldr" /\ cur = c
  /\ hdr' = 0
  /\ IF expired[c] THEN Goto(c, "cfail") /\ cur' = c                  \* "Timeout before read header": -1 without shutdown
     ELSE IF shut THEN Goto(c, "cfail") /\ cur' = c                    \* the read fails at once
     ELSE Goto(c, "rdhdr") /\ cur' = None
  /\ UNCHANGED <<atag, otag, mtag, map, mw, mr, cvq, wake, phase, th, ret, targ, stay, env, gho>>
\* environment: the header read completes
HdrArrive(c) ==
  /\ pc[c] = "rdhdr" /\ cur = None /\ ~shut /\ wire # <<>>
  /\ wire' = Tail(wire)
  /\ IF Head(wire).k = "H"
     THEN /\ hdr' = Head(wire).t /\ atag' = [atag EXCEPT ![c] = Head(wire).t] /\ Goto(c, "hdrok") /\ UNCHANGED shut
     ELSE \* body bytes of a response nobody collected are parsed as a header: magic check fails, stream shut down (rpc.cpp:110-115)
          /\ hdr' = GARBAGE /\ atag' = [atag EXCEPT ![c] = GARBAGE] /\ Goto(c, "cfail") /\ shut' = TRUE
  /\ UNCHANGED <<cur, otag, mtag, map, mw, mr, cvq, wake, phase, th, ret, targ, stay,
                 expired, nexp, pendB, sent, answered, nbogus, nerr, gho>>
\* the header read fails: own deadline passed, injected error, or the stream was shut down: rpc.cpp:105-109
HdrFail(c) ==
  /\ pc[c] = "rdhdr" /\ cur = None
  /\ \/ shut /\ UNCHANGED nerr
     \/ expired[c] /\ UNCHANGED nerr
     \/ nerr < MaxErr /\ nerr' = nerr + 1
  /\ shut' = TRUE /\ Goto(c, "cfail") /\ atag' = [atag EXCEPT ![c] = GARBAGE]
  /\ UNCHANGED <<cur, otag, mtag, map, mw, mr, cvq, wake, phase, th, ret, hdr, targ, stay,
                 expired, nexp, wire, pendB, sent, answered, nbogus, gho>>
\* return of a reader: DEFERs at ooo:172 (mutex_r.unlock) and :123 (m_wait.notify_one)
LdrReturn(c, how, path) == /\ mr' = None /\ NotifyOne /\ Finish(c, how, path)
\* ooo:183-190  do_completion failed: erase the reader's OWN tag, return -1
LdrCompletionFailed(c) ==
  /\ pc[c] = "cfail" /\ (cur = c \/ cur = None)
  /\ EraseTag(c, otag[c]) /\ LdrReturn(c, "fail", "ldrfail")
  /\ UNCHANGED <<atag, otag, mtag, mw, phase, th, ret, hdr, targ, stay, env, buf, mytag, claimedBy, uar>>
\* ooo:183-204: look the received tag up; unknown: erase own tag, return -2/ENOENT (the body stays on the wire);
\* known: take it out of the map and start collecting through the TARGET's context: do_recv_body (rpc.cpp:118-128)
LdrLookup(c) ==
  /\ pc[c] = "hdrok" /\ cur = None
  /\ IF Lookup(atag[c]) = {}
     THEN /\ EraseTag(c, otag[c]) /\ LdrReturn(c, "fail", "unknowntag")
          /\ UNCHANGED <<atag, otag, mtag, mw, phase, th, ret, hdr, targ, stay, env, buf, mytag, claimedBy, uar>>
     ELSE LET t == Owner(atag[c])
              into == IF Variant = "collectself" THEN c ELSE t IN
          /\ EraseTag(c, atag[c]) /\ claimedBy' = [claimedBy EXCEPT ![t] = c]
          /\ targ' = [targ EXCEPT ![c] = t]
          /\ uar' = uar \cup Touch(c, into, "collect:ctx")      \* reads targ->do_collect, targ->response, targ->timeout; truncates the iovector
          /\ Goto(c, "rdbody") /\ cur' = None
          /\ UNCHANGED <<atag, otag, mtag, mw, mr, cvq, wake, phase, th, ret, hdr, stay, env, buf, res, mytag, retpath>>
Into(c) == IF Variant = "collectself" THEN c ELSE targ[c]
\* environment: the body read completes into the target's buffers
BodyArrive(c) ==
  /\ pc[c] = "rdbody" /\ cur = None /\ ~shut /\ wire # <<>> /\ Head(wire).k = "B"
  /\ wire' = Tail(wire)
  /\ buf' = [buf EXCEPT ![Into(c)] = Head(wire).t]
  /\ uar' = uar \cup Touch(c, Into(c), "collect:buffer")
  /\ Goto(c, "bodyok")
  /\ UNCHANGED <<cur, eng, expired, nexp, pendB, sent, answered, nbogus, nerr, shut, res, mytag, claimedBy, erasedBy, retpath>>
\* the body read fails: the TARGET's deadline passed, injected error, stream shut down: rpc.cpp:131-135
BodyFail(c) ==
  /\ pc[c] = "rdbody" /\ cur = None
  /\ \/ shut /\ UNCHANGED nerr
     \/ expired[Into(c)] /\ UNCHANGED nerr
     \/ nerr < MaxErr /\ nerr' = nerr + 1
  /\ shut' = TRUE /\ Goto(c, "bodyfail")
  /\ UNCHANGED <<cur, eng, expired, nexp, wire, pendB, sent, answered, nbogus, gho>>
\* ooo:204-224: store the result in the target, mark it COLLECTED under its phaselock, own tag: return, else wake the target
LdrCollected(c) ==
  /\ pc[c] \in {"bodyok", "bodyfail"} /\ cur = None
  /\ LET t == targ[c]
         i == Into(c)
         r == IF pc[c] = "bodyok" THEN 1 ELSE -1
         tht == th[t] IN
     /\ ret' = [ret EXCEPT ![i] = r]
     /\ phase' = [phase EXCEPT ![t] = "COLLECTED"]
     /\ targ' = [targ EXCEPT ![c] = None]
     /\ IF otag[c] = atag[c]
        THEN \* own response  (th is the reader itself; the th != CURRENT branch cannot be taken by a stub call)
             /\ LdrReturn(c, IF r > 0 /\ i = c THEN "ok" ELSE "fail", "own")
             /\ uar' = uar \cup Touch(c, i, "collected:ret") \cup Touch(c, t, "collected:phase")
             /\ UNCHANGED <<atag, otag, mtag, map, mw, th, hdr, stay, env, buf, mytag, claimedBy, erasedBy>>
        ELSE /\ uar' = uar \cup Touch(c, i, "collected:ret") \cup Touch(c, t, "collected:phase") \cup Touch(c, t, "collected:interrupt")
             /\ IF tht = None
                THEN \* "requesting thread is NULL": -2
                     LdrReturn(c, "fail", "nullth") /\ UNCHANGED <<atag, otag, mtag, map, mw, th, hdr, stay, env, buf, mytag, claimedBy, erasedBy>>
                ELSE \* thread_interrupt(th, EINTR): a sleeping target leaves the wait queue; then the next header
                     /\ IF pc[tht] = "parked" /\ wake[tht] = None
                        THEN cvq' = RemoveSeq(cvq, tht) /\ wake' = [wake EXCEPT ![tht] = "intr"]
                        ELSE UNCHANGED <<cvq, wake>>
                     /\ Goto(c, "ldr") /\ cur' = c
                     /\ UNCHANGED <<atag, otag, mtag, map, mw, mr, th, hdr, stay, env, buf, res, mytag, claimedBy, erasedBy, retpath>>

\* environment: a parked follower's deadline fires (the scheduler takes it out of the wait queue)
FollowerTimeout(c) == /\ pc[c] = "parked" /\ wake[c] = None /\ cur = None /\ expired[c] /\ ~stay[c]
                      /\ cvq' = RemoveSeq(cvq, c) /\ wake' = [wake EXCEPT ![c] = "timeout"]
                      /\ UNCHANGED <<pc, cur, atag, otag, mtag, map, mw, mr, phase, th, ret, hdr, targ, stay, env, gho>>
\* the follower runs again (holding its phaselock): ooo:146-166
FollowerWake(c) ==
  /\ pc[c] = "parked" /\ wake[c] # None /\ cur = None
  /\ IF phase[c] = "COLLECTED" /\ th[c] = c
     THEN \* collected by a reader
          /\ NotifyOne /\ Finish(c, IF ret[c] > 0 THEN "ok" ELSE "fail", "collected")
          /\ UNCHANGED <<atag, otag, mtag, map, mw, mr, phase, th, ret, hdr, targ, stay, env, buf, mytag, claimedBy, erasedBy, uar>>
     ELSE IF wake[c] \in {"timeout", "intr"}
          THEN IF Variant \in {"patched", "patched2"} /\ Lookup(atag[c]) = {}
               THEN \* repair: a reader holds our context (tag already taken out of the map): stay until it is COLLECTED
                    /\ stay' = [stay EXCEPT ![c] = TRUE]
                    /\ cvq' = Append(cvq, c) /\ wake' = [wake EXCEPT ![c] = None] /\ cur' = None
                    /\ UNCHANGED <<pc, atag, otag, mtag, map, mw, mr, phase, th, ret, hdr, targ, env, gho>>
               ELSE \* ooo:152-160 erase own tag, ETIMEDOUT
                    /\ EraseTag(c, atag[c]) /\ NotifyOne
                    /\ Finish(c, "fail", IF Lookup(atag[c]) = {} THEN "timeout_claimed" ELSE "timeout")
                    /\ UNCHANGED <<atag, otag, mtag, mw, mr, phase, th, ret, hdr, targ, stay, env, buf, mytag, claimedBy, uar>>
          ELSE \* notified: loop, phase is WAITING
               /\ TryReader(c)
               /\ UNCHANGED <<atag, mtag, map, mw, phase, th, ret, hdr, targ, stay, env, gho>>

(* ------------------------------------------------------------------------------------------------ environment *)
Expire(c) == /\ cur = None /\ c \in Timed /\ ~expired[c] /\ nexp < MaxExpire /\ pc[c] # "done"
             /\ expired' = [expired EXCEPT ![c] = TRUE] /\ nexp' = nexp + 1
             /\ UNCHANGED <<pc, cur, eng, wire, pendB, sent, answered, nbogus, nerr, shut, gho>>
DeliverH(t) == /\ cur = None /\ pendB = 0 /\ ~shut /\ t \in sent \ answered
               /\ wire' = Append(wire, H(t)) /\ pendB' = t /\ answered' = answered \cup {t}
               /\ UNCHANGED <<pc, cur, eng, expired, nexp, sent, nbogus, nerr, shut, gho>>
DeliverBogus(t) == /\ cur = None /\ pendB = 0 /\ ~shut /\ nbogus < MaxBogus /\ (t = UNKNOWN \/ t \in answered)
                   /\ wire' = Append(wire, H(t)) /\ pendB' = t /\ nbogus' = nbogus + 1
                   /\ UNCHANGED <<pc, cur, eng, expired, nexp, sent, answered, nerr, shut, gho>>
DeliverB == /\ cur = None /\ pendB # 0 /\ ~shut
            /\ wire' = Append(wire, B(pendB)) /\ pendB' = 0
            /\ UNCHANGED <<pc, cur, eng, expired, nexp, sent, answered, nbogus, nerr, shut, gho>>

Next == \/ \E c \in C : \/ Call(c) \/ LockW(c) \/ Issue(c) \/ StreamTakesRequest(c) \/ WriteFail(c) \/ SendDone(c)
                        \/ LdrStart(c) \/ HdrArrive(c) \/ HdrFail(c) \/ LdrCompletionFailed(c) \/ LdrLookup(c)
                        \/ BodyArrive(c) \/ BodyFail(c) \/ LdrCollected(c) \/ FollowerTimeout(c) \/ FollowerWake(c)
                        \/ Expire(c)
        \/ \E t \in Tags : DeliverH(t)
        \/ \E t \in Tags \cup {UNKNOWN} : DeliverBogus(t)
        \/ DeliverB
Spec == Init /\ [][Next]_vars

(* ------------------------------------------------------------------------------------------------ properties *)
PCs == {"idle", "lockw", "issue", "sending", "sent", "ldr", "rdhdr", "hdrok", "cfail", "rdbody", "bodyok", "bodyfail", "parked", "done"}
TypeOK == /\ pc \in [C -> PCs] /\ cur \in C \cup {None} /\ mw \in C \cup {None} /\ mr \in C \cup {None}
          /\ \A e \in map : e[1] \in Tags /\ e[2] \in C
          /\ \A c \in C : phase[c] \in {"BEFORE", "ISSUED", "WAITING", "COLLECTED"} /\ res[c] \in {None, "ok", "fail"}
AllDone == \A c \in C : pc[c] = "done"
\* a call that reports success holds exactly the payload produced for its own tag
OwnResponse == \A c \in C : res[c] = "ok" => buf[c] = mytag[c] /\ mytag[c] # 0
\* tags are unique and the map only holds calls that have not returned... (the second part is the F4 neighbourhood: see MapLive)
TagsUnique == \A c, d \in C : c # d /\ mytag[c] # 0 => mytag[c] # mytag[d]
\* a failing call neither consumes nor corrupts another call's response: nobody's buffers ever hold a foreign payload, a
\* call's tag leaves the map only by its own hand or by a reader that then collects into that call, and the map drains
FailureIsolated == /\ \A c \in C : buf[c] # 0 => buf[c] = mytag[c]
                   /\ \A c \in C : erasedBy[c] \notin {None, c} => claimedBy[c] = erasedBy[c]
                   /\ AllDone => map = {}
\* the map never refers to the context of a call that has returned
MapLive == \A e \in map : pc[e[2]] # "done"
\* no step touches the context or the buffers of a call that has returned
NoAccessAfterReturn == uar = {}
\* the same with the recorded finding F4 tolerated, and only it: the victim returned by the follower-timeout path while a
\* reader had already taken its tag out of the map
NoAccessAfterReturnKF == \A x \in uar : x[4] = "timeout_claimed"
\* ... and with the second return path that leaves a reader inside the context (only reachable with EarlyResponse): the call
\* returned "context not found in map" (ooo:118-121) because the reader had taken its tag before the send returned
NoAccessAfterReturnKF2 == \A x \in uar : x[4] \in {"timeout_claimed", "notinmap_claimed"}
\* one reader at a time, and it is the holder of mutex_r
ReaderPcs == {"ldr", "rdhdr", "hdrok", "cfail", "rdbody", "bodyok", "bodyfail"}
OneReader == \A c \in C : pc[c] \in ReaderPcs <=> mr = c
\* when the reader returns and callers remain, one of them becomes reader: never a state at rest with a parked follower and no reader
Quiet(c) == pc[c] \in {"idle", "done"} \/ (pc[c] = "parked" /\ wake[c] = None)
LeaderHandover == ~(/\ cur = None /\ mr = None
                    /\ \E c \in C : pc[c] = "parked" /\ wake[c] = None
                    /\ \A c \in C : Quiet(c))
\* a parked follower is in the wait queue exactly while it has no wake-up reason
QueueSane == \A c \in C : (pc[c] = "parked" /\ wake[c] = None) <=> (\E i \in 1..Len(cvq) : cvq[i] = c)
\* anti-vacuity witnesses (expected to be violated = reachable)
W_AllOk == ~(AllDone /\ \A c \in C : res[c] = "ok")
W_FollowerCollected == \A c \in C : retpath[c] # "collected"
W_Patched_Stay == \A c \in C : ~stay[c]
====
