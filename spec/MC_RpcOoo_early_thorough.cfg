\* C11 thorough: as written, in the environment where the peer can answer before the write call has returned (EarlyResponse):
\* second return path that leaves the reader inside a returned context ("context not found in map", finding C11b).  KF2 form.
\* 3 callers, responses in all orders (header and body separate arrivals), 1 deadline(s) may pass anywhere, 1 stream error(s), 1 unknown-or-duplicate response(s)
SPECIFICATION Spec
CONSTANTS
  C = {c1, c2, c3}
  Timed = {c1, c2, c3}
  MaxExpire = 1
  MaxErr = 1
  MaxBogus = 1
  Variant = "asis"
  EarlyResponse = TRUE
INVARIANTS TypeOK OwnResponse TagsUnique FailureIsolated MapLive OneReader LeaderHandover QueueSane NoAccessAfterReturnKF2
SYMMETRY Sym
CHECK_DEADLOCK FALSE
