\* C11 anti-vacuity: the reader collects through its own context instead of the target's: OwnResponse / FailureIsolated MUST be violated.
\* 3 callers, responses in all orders (header and body separate arrivals), 1 deadline(s) may pass anywhere, 1 stream error(s), 0 unknown-or-duplicate response(s)
SPECIFICATION Spec
CONSTANTS
  C = {c1, c2, c3}
  Timed = {c1, c2, c3}
  MaxExpire = 1
  MaxErr = 1
  MaxBogus = 0
  Variant = "collectself"
  EarlyResponse = FALSE
INVARIANTS OwnResponse FailureIsolated
SYMMETRY Sym
CHECK_DEADLOCK FALSE
