SPECIFICATION Spec
CONSTANTS
  Fence = TRUE
  TSO = TRUE
  Rounds = 2
INVARIANT MutualExclusion
