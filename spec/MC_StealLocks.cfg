SPECIFICATION FairSpec
CONSTANTS
  VCPU = {1, 2, 3}
  Active = {1, 2, 3}
  Passive = {2, 3}
  HoldFgAcrossSteal = FALSE
  Rounds = 2
INVARIANT RunqExclusive
PROPERTY Terminates
