---- MODULE Trace_RangeSplit ----
(* Judges the real code's output (harness/h_rangesplit.cpp, one ndjson line per case)      *)
(* against the C15 reference operators and against the transcription in RangeSplit.tla.  *)
(* Every mismatching line is printed as <<"MISMATCH", line, what>>; the trace is accepted *)
(* (NotAccepted violated) when every line was consumed.                                  *)
EXTENDS RangeSplitOps, Json, IOUtils
Tr == ndJsonDeserialize(IOEnv.TRACE)
VARIABLE l
ToSub(a) == Sub(a[1], a[2], a[3])
Parts(seq) == [k \in 1..Len(seq) |-> ToSub(seq[k])]
Norm(s) == IF s.length = 0 THEN Cleared ELSE s
GeomOf(r) == IF r.k = "vi" THEN [kind |-> "vi", kp |-> r.kp] ELSE [kind |-> r.k, I |-> r.I]
Problems(r) ==
  IF r.e = "Fatal" THEN {"fatal"} ELSE
  LET G == GeomOf(r)
      S == SplitInit(G, r.off, r.len)
      all == Parts(r.all)  al == Parts(r.al)
      small == ToSub(r.small) pre == ToSub(r.pre) post == ToSub(r.post)
  IN  (IF r.allrun THEN {"all_parts runaway"} ELSE {})
 \cup (IF r.alrun THEN {"aligned_parts runaway"} ELSE {})
 \cup (IF ~r.allrun /\ ~TilesOK(G, r.off, r.len, all) THEN {"all_parts do not tile the range"} ELSE {})
 \cup (IF r.len = 0 /\ (NonEmpty(all) # <<>> \/ NonEmpty(al) # <<>>) THEN {"empty range yields a non-empty part"} ELSE {})
 \cup (IF ~r.alrun /\ ~ClassOK(G, r.off, r.len, small, pre, post, al) THEN {"classification inconsistent with the part list"} ELSE {})
 \cup (IF ~BoundsOK(G, r.off, r.len, r.ab, r.ae) \/ r.abo # Mul(G, r.ab) \/ r.aeo # Mul(G, r.ae) THEN {"aligned begin/end do not enclose the range within one interval"} ELSE {})
 \cup (IF <<r.ab, r.ae, r.apb, r.ape>> # <<S.abegin, S.aend, S.apbegin, S.apend>>
          \/ small # Norm(S.small) \/ pre # Norm(S.preface) \/ post # Norm(S.postface)
       THEN {"differs from the transcribed init()"} ELSE {})
Init == l = 1
Next == /\ l <= Len(Tr)
        /\ LET p == Problems(Tr[l]) IN IF p = {} THEN TRUE ELSE PrintT("MISMATCH " \o ToString(l) \o " " \o ToString(p))
        /\ l' = l + 1
Spec == Init /\ [][Next]_l
NotAccepted == l <= Len(Tr)
====
