\* the same scope with the repaired evict() (never extends the media file): must hold
SPECIFICATION Spec
CONSTANTS
  NF = 1
  SZ = 7
  BLK = 2
  RU = 2
  Readers = {r1, r2}
  r1 = r1
  r2 = r2
  ReadSet <- RS_p
  NReads = 2
  MaxEv = 0
  Async = FALSE
  MaxRefilling = 2
  Faults = 0
  Fiemap = FALSE
  CapFull = FALSE
  ReopenMax = 1
  PunchMax = 1
  PunchGuard = TRUE
  Bug = "none"
SYMMETRY Sym
INVARIANTS ReadsEqualSource FailedSourceNeverWrongBytes NeverBeyondSize MediaOnlyCorrectOrHole RefillDedup RangeLockDisjoint RefillingCount LocksAtRest TypeOK
