\* buffered cap 1, repaired protocol (KF = {}), 2 senders x 2 receivers x 1 call, no timeouts, no close()
SPECIFICATION Spec
CONSTANTS
  Cap = 1
  S = {"s1", "s2"}
  R = {"r1", "r2"}
  NV = 1
  NR = 1
  SKinds = {"inf"}
  RKinds = {"inf"}
  WithClose = FALSE
  KF = {}
INVARIANTS TypeOK DeliveredExactlyOnce PerSenderOrder FalseOnlyOnCloseOrTimeout DrainAfterClose ReleasedWhenPartnerExists ReleasedOnClose
CHECK_DEADLOCK FALSE
