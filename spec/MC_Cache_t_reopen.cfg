\* thorough: 2 reads per reader, a new pool instance at rest (map rebuilt from data/hole seeks), 1 eviction
SPECIFICATION Spec
CONSTANTS
  NF = 1
  SZ = 7
  BLK = 2
  RU = 2
  Readers = {r1, r2}
  r1 = r1
  r2 = r2
  ReadSet <- RS_one
  NReads = 2
  MaxEv = 1
  Async = FALSE
  MaxRefilling = 2
  Faults = 0
  Fiemap = FALSE
  CapFull = FALSE
  ReopenMax = 1
  PunchMax = 0
  PunchGuard = FALSE
  Bug = "none"
SYMMETRY Sym
INVARIANTS ReadsEqualSource FailedSourceNeverWrongBytes NeverBeyondSize MediaOnlyCorrectOrHole RefillDedup RangeLockDisjoint RefillingCount LocksAtRest TypeOK
