#!/bin/bash
# Build (or refresh) the hooks-on library from the repository's current working tree (/repo unless VERIF_REPO is set for a
# mutation experiment on a scratch copy).  Used by MANIFEST.setup_cmd and by every check (incremental: ninja only rebuilds
# what changed).
set -e
V=/verif
R=${VERIF_REPO:-/repo}
BB=${VERIF_BUILD:-$V/.build}
B=$BB/photon
mkdir -p $BB $V/out
exec 9>$BB/.lock
flock 9
if [ ! -f $B/build.ninja ]; then
  cmake -G Ninja -S $R -B $B -DCMAKE_BUILD_TYPE=RelWithDebInfo \
    -DCMAKE_CXX_FLAGS="-Wno-error -DPHOTON_VERIF" -DCMAKE_C_FLAGS="-DPHOTON_VERIF" \
    -DPHOTON_BUILD_TESTING=OFF -DPHOTON_CXX_STANDARD=14 -DPHOTON_ENABLE_LIBCURL=ON > $BB/cmake.log 2>&1 || { cat $BB/cmake.log; exit 2; }
fi
ninja -C $B photon_static > $BB/ninja.log 2>&1 || { tail -50 $BB/ninja.log; exit 2; }
echo "setup ok: $(ls -la $B/output/libphoton_sole.a 2>/dev/null || find $B -name 'libphoton*.a' | head -3)"
