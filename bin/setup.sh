#!/bin/bash
# Build (or refresh) the hooks-on library from /repo's current working tree.
# Used by MANIFEST.setup_cmd and by every check (incremental: ninja only rebuilds what changed).
set -e
V=/verif
B=$V/.build/photon
mkdir -p $V/.build $V/out
exec 9>$V/.build/.lock
flock 9
if [ ! -f $B/build.ninja ]; then
  cmake -G Ninja -S /repo -B $B -DCMAKE_BUILD_TYPE=RelWithDebInfo \
    -DCMAKE_CXX_FLAGS="-Wno-error -DPHOTON_VERIF" -DCMAKE_C_FLAGS="-DPHOTON_VERIF" \
    -DPHOTON_BUILD_TESTING=OFF -DPHOTON_CXX_STANDARD=14 -DPHOTON_ENABLE_LIBCURL=ON > $V/.build/cmake.log 2>&1 || { cat $V/.build/cmake.log; exit 2; }
fi
ninja -C $B photon_static > $V/.build/ninja.log 2>&1 || { tail -50 $V/.build/ninja.log; exit 2; }
echo "setup ok: $(ls -la $B/output/libphoton_sole.a 2>/dev/null || find $B -name 'libphoton*.a' | head -3)"
