#!/bin/bash
# Guard OFF: build a tree as the baseline does (no -DPHOTON_VERIF), run its test suite and compare the gtest cases that
# passed with /root/.vp/BASELINE.json stable_pass.   usage: baseline_off.sh [src_dir [build_dir]]   (default /repo /repo/_build)
SRC=${1:-/repo}; BD=${2:-$SRC/_build}
set -e
if [ ! -f $BD/build.ninja ]; then
  cmake -G Ninja -S $SRC -B $BD -DCMAKE_BUILD_TYPE=RelWithDebInfo -DPHOTON_BUILD_TESTING=ON -DCMAKE_CXX_FLAGS=-Wno-error
fi
cmake --build $BD -j16
set +e
ctest --test-dir $BD -j8 --timeout 900 --test-output-size-passed 100000000 --test-output-size-failed 100000000 > $BD/ctest.out 2>&1
tail -30 $BD/ctest.out
python3 /verif/bin/suite_compare.py $BD
