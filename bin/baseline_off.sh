#!/bin/bash
# Guard OFF: build /repo as the baseline does (no -DPHOTON_VERIF) and run its test suite.
set -e
if [ ! -f /repo/_build/build.ninja ]; then
  cmake -G Ninja -S /repo -B /repo/_build -DCMAKE_BUILD_TYPE=RelWithDebInfo -DPHOTON_BUILD_TESTING=ON -DCMAKE_CXX_FLAGS=-Wno-error
fi
cmake --build /repo/_build -j16
ctest --test-dir /repo/_build -j8 --timeout 900 "$@"
