#!/usr/bin/env python3
"""suite_compare.py <build_dir>: after `ctest` ran in <build_dir>, compare the gtest cases that passed
(parsed from Testing/Temporary/LastTest.log) with /root/.vp/BASELINE.json stable_pass.
Prints the stable cases that did not pass; exit 0 iff none is missing."""
import json, re, sys
bd = sys.argv[1] if len(sys.argv) > 1 else '/repo/_build'
base = json.load(open('/root/.vp/BASELINE.json'))
stable = set(base['stable_pass'])
log = open(f'{bd}/Testing/Temporary/LastTest.log', errors='replace').read()
ok = set()
for m in re.finditer(r'\[       OK \] ([^\s,]+)', log):
    ok.add(m.group(1).replace('.', '::', 1))
# ctest-level entries (binary::binary) for non-gtest binaries
for m in re.finditer(r'^"?([\w\-\.]+)"? end time:.*?\n"?\1"? time elapsed:.*?\n', log, re.M):
    pass
for m in re.finditer(r'^(\d+)/(\d+) Test: ([\w\-\.]+)\n(?:.*\n)*?Test (Passed|Failed)', log, re.M):
    if m.group(4) == 'Passed':
        ok.add(f'{m.group(3)}::{m.group(3)}')
missing = sorted(stable - ok)
print(f'stable={len(stable)} passed_now={len(ok)} missing={len(missing)}')
for x in missing[:50]:
    print('  MISSING', x)
sys.exit(1 if missing else 0)
