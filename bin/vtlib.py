#!/usr/bin/env python3
"""Shared machinery for /verif checks: build, TLC model checking, harness runs,
TLC trace validation, known-finding classification, evidence files.

Exit-code policy (see DESIGN.md 2.4): 0 = property held on everything explored,
1 = VIOLATION line printed, 2 = infrastructure error (build/TLC crash/timeout)."""
import json, os, re, subprocess, sys, time, shutil, hashlib, glob

V = '/verif'
# The registered checks always run against /repo.  For mutation experiments (a scratch copy of the repository with a seeded
# change) VERIF_REPO points the build at the copy; build output, traces and evidence then go under VERIF_SCRATCH so the
# real build tree and the committed evidence are left alone.
REPO = os.environ.get('VERIF_REPO', '/repo')
_SCR = os.environ.get('VERIF_SCRATCH') or (None if REPO == '/repo' else '/tmp/verif_scratch_' + hashlib.md5(REPO.encode()).hexdigest()[:8])
SPEC = f'{V}/spec'
HARNESS = f'{V}/harness'
BUILD = f'{_SCR}/build' if _SCR else f'{V}/.build'
OUT = f'{_SCR}/out' if _SCR else f'{V}/out'
EVID = f'{_SCR}/evidence' if _SCR else f'{V}/evidence'
os.environ['VERIF_REPO'] = REPO
os.environ['VERIF_BUILD'] = BUILD
TLA_CP = '/opt/veriftools/tla/tla2tools.jar:/opt/veriftools/tla/CommunityModules-deps.jar'


class InfraError(Exception):
    pass


def sh(cmd, timeout=None, env=None, cwd=None, check=False):
    e = dict(os.environ)
    if env:
        e.update(env)
    try:
        p = subprocess.run(cmd, shell=isinstance(cmd, str), capture_output=True, text=True,
                           timeout=timeout, env=e, cwd=cwd, errors='replace')
    except subprocess.TimeoutExpired as ex:
        out = ex.stdout or ''
        if isinstance(out, bytes):
            out = out.decode(errors='replace')
        return 124, out, 'TIMEOUT'
    if check and p.returncode != 0:
        raise InfraError(f'command failed ({p.returncode}): {cmd}\n{p.stdout[-3000:]}\n{p.stderr[-3000:]}')
    return p.returncode, p.stdout, p.stderr


class Ctx:
    def __init__(self, pid, tier, seed, keep=False):
        self.pid = pid
        self.tier = tier
        self.seed = seed
        self.t0 = time.time()
        self.out = f'{OUT}/{pid}'
        if keep:            # --replay: the replay file usually lives under out/<id>/replay
            self.out = f'{OUT}/{pid}/replaying'
        shutil.rmtree(self.out, ignore_errors=True)
        os.makedirs(self.out, exist_ok=True)
        os.makedirs(f'{self.out}/replay', exist_ok=True)
        self.states = 0
        self.transitions = 0
        self.traces_ok = 0
        self.samples = []
        self.extra = {}
        self.assumptions = []
        self.violations = []      # (what, replay path)
        self.known_hits = []      # (finding id, what)
        self.mc_runs = []
        self.kf = load_known_findings()

    # ---------------------------------------------------------------- build
    def build_lib(self):
        rc, o, e = sh([f'{V}/bin/setup.sh'], timeout=1500)
        if rc != 0:
            raise InfraError('hooks-on library build failed:\n' + o[-4000:] + e[-2000:])

    def build_harness(self, name):
        """make -C /verif/harness <name>; the Makefile tracks header deps in /repo."""
        rc, o, e = sh(['make', '-s', '-C', HARNESS, f'{BUILD}/h/{name}'], timeout=900)
        if rc != 0:
            raise InfraError(f'harness build failed: {name}\n' + o[-4000:] + e[-6000:])
        return f'{BUILD}/h/{name}'

    # ---------------------------------------------------------------- TLC
    def tlc(self, module, cfg=None, workers=16, timeout=600, simulate=None, depth=None,
            env=None, xmx='12g', deque=False, coverage=False, extra_args=(), tag=None):
        """Run TLC on spec/<module>.tla with spec/<cfg>. Returns dict."""
        tag = tag or (cfg or module).replace('.cfg', '')
        meta = f'{self.out}/tlc_{tag}_{os.getpid()}'
        shutil.rmtree(meta, ignore_errors=True)
        jopts = ['-XX:+UseParallelGC', f'-Xmx{xmx}']
        if deque:
            jopts.append('-Dtlc2.tool.queue.IStateQueue=StateDeque')
        cmd = ['java'] + jopts + ['-cp', TLA_CP, 'tlc2.TLC', '-noGenerateSpecTE', '-workers', str(workers),
                                  '-metadir', meta]
        if cfg:
            cmd += ['-config', cfg]
        if simulate:
            cmd += ['-simulate', f'num={simulate}']
            if depth:
                cmd += ['-depth', str(depth)]
        if coverage:
            cmd += ['-coverage', '1']
        cmd += list(extra_args) + [module + '.tla']
        t = time.time()
        rc, o, e = sh(cmd, timeout=timeout, env=env, cwd=SPEC)
        shutil.rmtree(meta, ignore_errors=True)
        log = f'{self.out}/tlc_{tag}.log'
        with open(log, 'w') as f:
            f.write(' '.join(cmd) + '\n' + o + '\n' + e)
        r = {'module': module, 'cfg': cfg, 'rc': rc, 'log': log, 'wall_s': round(time.time() - t, 1), 'out': o}
        m = re.findall(r'(\d+) states generated, (\d+) distinct states found', o)
        if m:
            r['generated'], r['distinct'] = int(m[-1][0]), int(m[-1][1])
        else:
            r['generated'] = r['distinct'] = 0
        m = re.search(r'The depth of the complete state graph search is (\d+)', o)
        r['depth'] = int(m.group(1)) if m else None
        r['timeout'] = (rc == 124)
        r['inv_violated'] = re.findall(r'Invariant (\S+) is violated', o)
        r['prop_violated'] = bool(re.search(r'Temporal properties were violated|Action property .* is violated', o))
        r['deadlock'] = 'Deadlock reached' in o
        r['error'] = bool(re.search(r'^Error:', o, re.M)) and not r['inv_violated'] and not r['deadlock'] and not r['prop_violated']
        r['ok'] = (rc == 0)
        if 'Parsing or semantic analysis failed' in o or 'Parse Error' in o:
            raise InfraError(f'TLC could not parse {module}: see {log}\n' + o[-2000:])
        return r

    def mc(self, module, cfg, expect_ok=True, count=True, **kw):
        """Exhaustive / simulation model-checking run that is expected to pass on the spec."""
        r = self.tlc(module, cfg, **kw)
        if r['timeout'] and not kw.get('simulate'):
            raise InfraError(f'TLC timed out on {module}/{cfg} (see {r["log"]})')
        if r['error'] or (r['rc'] not in (0, 12, 13, 11, 10, 124)):
            raise InfraError(f'TLC failed on {module}/{cfg} rc={r["rc"]} (see {r["log"]})\n' + r['out'][-1500:])
        if count:
            self.states += r['distinct']
            self.transitions += r['generated']
        self.mc_runs.append({k: r[k] for k in ('module', 'cfg', 'generated', 'distinct', 'depth', 'wall_s', 'rc')})
        return r

    def trace_check(self, module, cfg, trace, timeout=600, deque=True, workers=1, xmx='8g', extra_env=None, tag=None):
        """Trace validation: spec/<module>.tla reads IOEnv.TRACE; cfg lists INVARIANT NotAccepted.
        Accepted <=> NotAccepted is violated. Returns dict(accepted, depth, ...)."""
        env = {'TRACE': trace}
        if extra_env:
            env.update(extra_env)
        r = self.tlc(module, cfg, workers=workers, timeout=timeout, env=env, deque=deque, xmx=xmx,
                     tag=tag or ('trace_' + os.path.basename(trace)))
        if r['timeout']:
            raise InfraError(f'trace validation timed out: {module} {trace}')
        if r['error']:
            raise InfraError(f'trace validation crashed: {module} {trace} see {r["log"]}\n' + r['out'][-1500:])
        r['accepted'] = 'NotAccepted' in r['inv_violated']
        r['other_inv'] = [i for i in r['inv_violated'] if i != 'NotAccepted']
        return r

    # ---------------------------------------------------------------- harness
    def run_harness(self, binpath, args, timeout=300, env=None, ok_rcs=(0,)):
        rc, o, e = sh([binpath] + [str(a) for a in args], timeout=timeout, env=env)
        if rc == 124:
            return rc, o, e
        if rc not in ok_rcs:
            raise InfraError(f'harness {binpath} {args} exited {rc}\n{o[-2000:]}\n{e[-3000:]}')
        return rc, o, e

    # ---------------------------------------------------------------- verdicts
    def violation(self, what, replay):
        self.violations.append((what, replay))
        print(f'VIOLATION property={self.pid} replay={replay}  # {what}', flush=True)

    def known(self, fid, what):
        self.known_hits.append((fid, what))

    def save_replay(self, name, content):
        p = f'{self.out}/replay/{name}'
        with open(p, 'w') as f:
            f.write(content if isinstance(content, str) else json.dumps(content, indent=1))
        return p

    def finish(self, level='model_checking', rule=None):
        # one KNOWN-FINDING line per listed open finding that was hit
        seen = set()
        for fid, what in self.known_hits:
            if fid in seen:
                continue
            seen.add(fid)
            print(f'KNOWN-FINDING: property={self.pid} {fid}: {what}', flush=True)
        cov = {
            'states': self.states, 'transitions': self.transitions,
            'traces_validated_against_impl': self.traces_ok,
            'samples': self.samples[:12] or ['(no samples recorded)'],
            'model_checking_runs': self.mc_runs,
            'known_finding_hits': sorted(seen),
        }
        if rule:
            cov['rule'] = rule
        cov.update(self.extra)
        ev = {
            'property_id': self.pid, 'tier': self.tier, 'seed': self.seed, 'level': level,
            'coverage': cov, 'assumptions': self.assumptions,
            'wall_s': round(time.time() - self.t0, 1), 'violations': len(self.violations),
        }
        os.makedirs(EVID, exist_ok=True)
        with open(f'{EVID}/{self.pid}.json', 'w') as f:
            json.dump(ev, f, indent=1, default=str)
        if self.violations:
            return 1
        print(f'OK property={self.pid} tier={self.tier} states={self.states} traces={self.traces_ok} '
              f'wall={ev["wall_s"]}s', flush=True)
        return 0


def load_known_findings():
    p = f'{V}/known-findings.json'
    if not os.path.exists(p):
        return {'open': [], 'fixed': []}
    with open(p) as f:
        return json.load(f)


def read_ndjson(path):
    out = []
    with open(path) as f:
        for line in f:
            line = line.strip()
            if line:
                out.append(json.loads(line))
    return out


def write_ndjson(path, rows):
    with open(path, 'w') as f:
        for r in rows:
            f.write(json.dumps(r, separators=(',', ':')) + '\n')


def split_runs(rows, key='e', reset='Reset'):
    """Split a concatenated trace into executions at Reset events."""
    runs, cur = [], []
    for r in rows:
        if r.get(key) == reset:
            if cur:
                runs.append(cur)
            cur = [r]
        else:
            cur.append(r)
    if cur:
        runs.append(cur)
    return runs
