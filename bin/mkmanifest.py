#!/usr/bin/env python3
"""Regenerates /verif/MANIFEST.json from the META dict of every /verif/checks/cNN.py (one per claimed
property).  A property without a check module (or listed in NA below) goes to not_applicable."""
import json, subprocess, sys, importlib, os
sys.path.insert(0, '/verif/bin'); sys.path.insert(0, '/verif')
ALL = ['C%02d' % i for i in range(1, 21)]
PENDING_REASON = 'check not built yet (planned, see DESIGN.md section 3); not claimed until its TLA+ specification and conformance harness exist'
NA = {}
# properties whose check is finished and reviewed (a check module that exists but is not listed here is work in progress)
READY = ['C01', 'C02', 'C03', 'C04', 'C05', 'C06', 'C07', 'C08', 'C09', 'C10', 'C11', 'C12', 'C13', 'C14', 'C15', 'C16', 'C17', 'C18', 'C19', 'C20']

def main():
    commits = subprocess.run(['git', '-C', '/repo', 'log', '--format=%h %s'], capture_output=True, text=True).stdout.splitlines()
    hooks = [c.split()[0] for c in commits if c.split(' ', 1)[1].startswith('verif:')]
    claimed = {}
    for pid in ALL:
        if pid in NA or pid not in READY or not os.path.exists(f'/verif/checks/{pid.lower()}.py'):
            continue
        mod = importlib.import_module('checks.' + pid.lower())
        if getattr(mod, 'META', None):
            claimed[pid] = mod.META
    m = {
     'version': 1,
     'setup_cmd': 'bin/setup.sh',
     'hooks': {'guard': 'PHOTON_VERIF',
               'enable': 'bin/setup.sh configures /verif/.build/photon with -DCMAKE_CXX_FLAGS="-Wno-error -DPHOTON_VERIF" and builds photon_static with ninja; harnesses compile with -DPHOTON_VERIF',
               'baseline_off_cmd': 'bin/baseline_off.sh',
               'source_commits': hooks, 'add_only': True},
     'engines': [{'name': 'tlc', 'path': '/opt/veriftools/tla/tla2tools.jar', 'serves_properties': sorted(claimed), 'kind_free_text': 'TLA+ explicit-state model checker (exhaustive / simulation) and trace validator'}],
     'checks': [], 'not_applicable': [],
     'notes': 'Model-based verification with explicit TLA+ specifications (spec/), bound to the code by harnesses (harness/) whose recorded executions are validated by TLC. See DESIGN.md. known-findings.json lists recorded and fixed defects.',
    }
    for pid in ALL:
        if pid in claimed:
            c = claimed[pid]
            m['checks'].append({
              'property_id': pid, 'quick_cmd': f'bin/check {pid} --tier quick', 'thorough_cmd': f'bin/check {pid} --tier thorough',
              'evidence_file': f'/verif/evidence/{pid}.json', 'replay_cmd_template': f'bin/check {pid} --replay {{path}}', 'engine': 'tlc',
              'level_claimed': {'category': c.get('category', 'model_checking'), 'text': c['text'], 'design_ref': c['design']},
              'level_note': c['note'], 'technique': c['technique']})
        else:
            m['not_applicable'].append({'property_id': pid, 'reason': NA.get(pid, PENDING_REASON)})
    json.dump(m, open('/verif/MANIFEST.json', 'w'), indent=1)
    print('claimed:', ' '.join(sorted(claimed)))

if __name__ == '__main__':
    main()
