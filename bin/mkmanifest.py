#!/usr/bin/env python3
"""Regenerates /verif/MANIFEST.json from the registry below (one entry per claimed property)."""
import json, subprocess
CLAIMED = {
 'C15': dict(
   text='TLC exhausts the transcribed init()/all_parts()/aligned_parts() step machine against the declarative tiling reference for every (geometry, offset, length) in a small scope (fixed 1..5, power-of-two 1..8, all key-point sets over 0..5; thorough: larger); the real range_split classes are executed on the same scope plus seeded random offsets up to 2^62 and every recorded case is judged by the reference operators in a trace specification.',
   note='TLC result holds for the stated scope; larger values only through seeded random cases. offset+length overflow near 2^64 is outside the statement. Harness is compiled from /repo headers with ASan/UBSan; a sanitizer report is a Fatal event that the specification cannot explain.',
   technique='TLA+ transcription + TLC exhaustive small-scope equivalence with reference; trace validation of real outputs (TLC) per case',
   design='3/C15'),
}
PENDING_REASON = 'check not built yet in this session (planned, see DESIGN.md section 3); not claimed until its TLA+ specification and conformance harness exist'
ALL = ['C%02d' % i for i in range(1, 21)]

def main():
    commits = subprocess.run(['git', '-C', '/repo', 'log', '--format=%h %s'], capture_output=True, text=True).stdout.splitlines()
    hooks = [c.split()[0] for c in commits if c.split(' ', 1)[1].startswith('verif:')]
    m = {
     'version': 1,
     'setup_cmd': 'bin/setup.sh',
     'hooks': {'guard': 'PHOTON_VERIF',
               'enable': 'bin/setup.sh configures /verif/.build/photon with -DCMAKE_CXX_FLAGS="-Wno-error -DPHOTON_VERIF" and builds photon_static with ninja; harnesses compile with -DPHOTON_VERIF',
               'baseline_off_cmd': 'bin/baseline_off.sh',
               'source_commits': hooks, 'add_only': True},
     'engines': [{'name': 'tlc', 'path': '/opt/veriftools/tla/tla2tools.jar', 'serves_properties': sorted(CLAIMED), 'kind_free_text': 'TLA+ explicit-state model checker (exhaustive / simulation) and trace validator'}],
     'checks': [], 'not_applicable': [],
     'notes': 'Model-based verification with explicit TLA+ specifications (spec/), bound to the code by harnesses (harness/) whose recorded executions are validated by TLC. See DESIGN.md. known-findings.json lists recorded and fixed defects.',
    }
    for pid in ALL:
        if pid in CLAIMED:
            c = CLAIMED[pid]
            m['checks'].append({
              'property_id': pid, 'quick_cmd': f'bin/check {pid} --tier quick', 'thorough_cmd': f'bin/check {pid} --tier thorough',
              'evidence_file': f'/verif/evidence/{pid}.json', 'replay_cmd_template': f'bin/check {pid} --replay {{path}}', 'engine': 'tlc',
              'level_claimed': {'category': c.get('category', 'model_checking'), 'text': c['text'], 'design_ref': c['design']},
              'level_note': c['note'], 'technique': c['technique']})
        else:
            m['not_applicable'].append({'property_id': pid, 'reason': NA.get(pid, PENDING_REASON)})
    json.dump(m, open('/verif/MANIFEST.json', 'w'), indent=1)
NA = {}
if __name__ == '__main__':
    main()
