"""C11 RPC: each call gets its own response or an error; no access after it returns.
 (1) TLC: RpcOoo.tla - the out-of-order engine (tag map, mutex_w, reader election through mutex_r, m_wait, per-context phase / th /
     ret) under StubImpl (single response header, per-call deadline handed to the stream), one thread running at a time between
     blocking points (one vCPU), stream environment with responses in any order, header and body as separate arrivals, a deadline
     passing anywhere, stream errors, unknown / duplicate tags.  Invariants OwnResponse, FailureIsolated, NoAccessAfterReturn,
     LeaderHandover (+ TagsUnique, MapLive, OneReader, QueueSane).  The code AS WRITTEN, the recorded findings as expected
     counterexamples with a checked shape, the proposed repair on the same scope, two deliberately broken variants.
 (2) conformance Tier A: h_rpc (real rpc::Stub over a scripted IStream; callers on one vCPU; poisoned per-call buffers; stack area of
     the returned call's context compared) in modes enum (systematic 3-caller scope), rand (seeded random scripts), f4 (directed:
     the follower's deadline falls between header and body of its response while another caller reads) [and early]; every
     recorded execution validated by TLC against Trace_RpcA.tla."""
import os, re, json
from concurrent.futures import ThreadPoolExecutor
import vtlib
from checks import synccheck, tracecheck

META = dict(
    text='TLC exhausts a model of the RPC client (out-of-order engine + stub, transcribed: tag allocation / registration / send under mutex_w; wait_completion with map check, phase switch, reader election by try_lock(mutex_r), reader loop header -> lookup/erase -> collect into the TARGET context under the target\'s deadline -> COLLECTED -> return or interrupt the target; followers parked in m_wait with their deadline; every return path with its unlock / notify) for 3 callers (thorough also 4) on one vCPU with responses in every order, header and body as separate arrivals, deadlines passing at any scheduling point, a failing read or write, an unknown or duplicate tag: a call that reports success holds exactly the payload produced for its tag (OwnResponse); no buffer ever holds a foreign payload, a tag leaves the map only by its owner or by the reader that then collects into the owner, the map drains (FailureIsolated); no step touches context or buffers of a call that has returned (NoAccessAfterReturn); never a parked follower with no reader and nobody on the way (LeaderHandover). Recorded executions of the real stub over a scripted stream (systematic 3-caller scope: 6 response orders x deadline of one caller before header / between header and body / after body x stream error in header / in body / unknown tag with and without body / duplicate; seeded random scripts with 2-5 callers, fragmented and delayed headers and bodies, both stream timeout semantics, dropped responses, write failures; the directed straddle scenario) are validated by TLC against the abstract exchange: success = own payload completely copied while the call was pending; failure only with a cause (own deadline, stream fault, foreign/duplicate/late tag on the wire); body bytes only into the buffers of the call the response belongs to and only before it returns; poisoned buffers and the stack area of the returned context unchanged; nobody interrupts a returned caller; map empty at quiescence; no hang.',
    note='TLC results hold for the stated populations and the scheduling assumption of one vCPU (threads switch only at blocking calls). Conformance samples scripts and timing; the context of a returned call is observed through the stack area it occupied (valid as long as the compiler keeps the call frame where the harness expects it - the directed scenario shows the observation works). The server side (Skeleton) is not covered. Known finding F4 (follower times out while the reader collects its response) is recognised by its signature - in the model by the shape of the counterexample, on the real code by KF_F4 in Trace_RpcA plus an independent signature test - and reported as KNOWN-FINDING; every other rejection is a violation.',
    technique='TLA+ critical-section model checked exhaustively by TLC (code as written, proposed repair, broken variants); TLC trace validation of executions recorded from the real stub over a scripted stream',
    design='3/C11')

JOPTS = {'JAVA_TOOL_OPTIONS': '-XX:ParallelGCThreads=2 -XX:CICompilerCount=2'}
KNOWN_TEXT = {
    'F4': 'a follower whose deadline expires while the reader is collecting ITS response (tag already taken out of the map) returns '
          'ETIMEDOUT (rpc/out-of-order-execution.cpp:152-160); the reader then completes into the returned call: do_recv_body copies into '
          'its response buffers, targ->ret / targ->phaselock / targ->phase are written and targ->th is interrupted (:204-223)',
    'C11b': 'when the peer\'s response is read before the request\'s write call has returned, issue_operation overwrites the phase with ISSUED '
            '(rpc/out-of-order-execution.cpp:101-104) and wait_completion returns "context not found in map" (:118-121) while the reader is '
            'still collecting into that context: same use after return as F4, without any deadline',
}
# The variant of RpcOoo.tla that IS the code.  When the repair of F4 lands in /repo: set this to 'patched' and delete 'F4' below.
AS_WRITTEN = 'patched'       # F4 repaired by fix: d05c116
# Findings met by this check that are not (yet) listed in known-findings.json; each is tolerated only through its KF switch and
# signature.  C11b needs a stream whose writev returns after the peer has answered; the scenario is only run while it is listed.
PROVISIONAL = set()          # C11b is listed open (F29) in known-findings.json under its own id


def tolerated(ctx):
    if 'VERIF_C11_TOLERATE' in os.environ:      # self-tests (e.g. a scratch tree with the proposed repair): explicit list, may be empty
        return {k for k in os.environ['VERIF_C11_TOLERATE'].split(',') if k}
    listed = {f.get('alias', f['id']) for f in ctx.kf.get('open', []) if f.get('property') == 'C11' and f.get('alias', f.get('id')) in KNOWN_TEXT}
    return set(PROVISIONAL) | listed


# ------------------------------------------------------------------------------------------------ model checking
def _last_uar(out):
    """the uar entries of the last state TLC printed: list of (actor, victim, what, return path of the victim)"""
    m = list(re.finditer(r'/\\ uar = (\{.*?\})\s*(?=/\\ |\n\n|\Z)', out, re.S))
    if not m:
        return None
    return re.findall(r'<<(\w+), (\w+), "([^"]+)", "([^"]+)">>', m[-1].group(1))


def model_check(ctx, tol):
    t = 'quick' if ctx.tier == 'quick' else 'thorough'
    jobs = []       # (kind, key, cfg, workers)
    if AS_WRITTEN == 'asis' and 'F4' in tol:
        jobs.append(('pass', 'as written (F4 tolerated by shape)', f'MC_RpcOoo_asis_{t}.cfg', 4))
        jobs.append(('finding', ('F4', {'timeout_claimed'}), f'MC_RpcOoo_f4_{t}.cfg', 3))
        jobs.append(('pass', 'proposed repair of F4', f'MC_RpcOoo_patched_{t}.cfg', 4))
        if t == 'thorough':
            jobs.append(('pass', 'as written, 4 callers', 'MC_RpcOoo_asis4_thorough.cfg', 5))
            jobs.append(('pass', 'proposed repair, 4 callers', 'MC_RpcOoo_patched4_thorough.cfg', 5))
    else:
        # no tolerated deviation: the variant that is the code must satisfy everything
        v = 'patched' if AS_WRITTEN == 'patched' else 'f4'
        jobs.append(('pass', f'as written ({AS_WRITTEN}), strict', f'MC_RpcOoo_{v}_{t}.cfg', 5))
        if AS_WRITTEN == 'asis':
            jobs.append(('pass', 'as written, all other invariants', f'MC_RpcOoo_asis_{t}.cfg', 5))
    if 'C11b' in tol and t == 'thorough':
        jobs.append(('pass', 'as written, peer may answer before the write returns (F4 and C11b tolerated by shape)', 'MC_RpcOoo_early_thorough.cfg', 4))
        jobs.append(('finding', ('C11b', {'notinmap_claimed', 'timeout_claimed'}), 'MC_RpcOoo_earlyw.cfg', 3))
        jobs.append(('pass', 'repair of F4 + sketch of a repair of C11b, peer may answer before the write returns', 'MC_RpcOoo_patched2_early_thorough.cfg', 4))
    EXPECT = {'nonotify': {'LeaderHandover'}, 'collectself': {'OwnResponse', 'FailureIsolated'}}
    for br in EXPECT:
        jobs.append(('broken', br, f'MC_RpcOoo_{br}.cfg', 2))

    def work(j):
        kind, key, cfg, w = j
        return j, ctx.mc('RpcOoo', cfg, timeout=2400, workers=w, count=(kind == 'pass'), xmx='6g', env=dict(JOPTS))
    with ThreadPoolExecutor(max_workers=len(jobs)) as ex:
        results = list(ex.map(work, jobs))
    ok, caught, doc = True, {}, {}
    for (kind, key, cfg, w), r in results:
        if kind == 'pass':
            if r['rc'] != 0:
                rp = ctx.save_replay(f'mc_{cfg}.txt', r['out'][-12000:])
                ctx.violation(f'specification RpcOoo ({key}; {cfg}) violates {r["inv_violated"] or "a property"}', rp)
                ok = False
        elif kind == 'finding':
            fid, paths = key
            if r['rc'] == 0:
                print(f'NOTE property={ctx.pid} the specification as written no longer shows {fid}; if it is fixed remove it from PROVISIONAL', flush=True)
                continue
            uar = _last_uar(r['out'])
            shape_ok = bool(uar) and all(x[3] in paths for x in uar) and (fid != 'C11b' or any(x[3] == 'notinmap_claimed' for x in uar))
            if not shape_ok or not set(r['inv_violated']) <= {'NoAccessAfterReturn', 'NoAccessAfterReturnKF'}:
                rp = ctx.save_replay(f'mc_{cfg}.txt', r['out'][-12000:])
                ctx.violation(f'specification RpcOoo (as written) violates {r["inv_violated"]} with a counterexample that is not the recorded finding {fid}: {uar}', rp)
                ok = False
                continue
            steps = re.findall(r'^State \d+: <(\w+)\((\w+)\)?', r['out'], re.M)
            ctx.known(fid, KNOWN_TEXT[fid] + f' (TLC counterexample to {"/".join(r["inv_violated"])} on the specification as written)')
            doc[fid] = {'invariant': r['inv_violated'], 'accesses_after_return': uar, 'steps': [f'{a}({b})' for a, b in steps][-14:]}
        else:
            caught[key] = r['inv_violated']
            if not (set(r['inv_violated']) & EXPECT[key]):
                raise vtlib.InfraError(f'self-test: broken variant {key} of RpcOoo.tla was not caught ({r["inv_violated"]}), see {r["log"]}')
    ctx.extra['counterexamples_of_recorded_findings'] = doc
    ctx.extra['broken_variants_caught'] = caught
    return ok


# ------------------------------------------------------------------------------------------------ conformance
def signature(rows, fid):
    """Independent test of the finding's signature on the recorded rows (no TLC): every piece of evidence of an access after return
    (copy into a returned call's buffers, CtxTouched, BufTouched, LateInterrupt) concerns a call v that
      F4  : had a deadline, was not an early-answer call, returned an error AFTER another caller had read the complete header of v's
            response and BEFORE v's body had been copied completely;
      C11b: the same with an early-answer call (no deadline needed).
    Returns the list of such victims, or [] if there is no evidence or some evidence does not fit."""
    inv, resp_at, hdr_by, got = {}, {}, {}, {}
    victims, evidence = set(), []
    for i, r in enumerate(rows):
        e = r.get('e')
        if e == 'CallInv':
            inv[r['c']] = r
        elif e == 'StreamRead' and r['kind'] == 'hdr' and r['off'] + r['n'] >= 40 and r['rc'] and r['rc'] not in resp_at and r['rc'] not in hdr_by:
            hdr_by[r['rc']] = r['by']
        elif e == 'StreamRead' and r['kind'] == 'body' and r['owner']:
            if r['owner'] in resp_at:
                evidence.append(r['owner'])
            else:
                got[r['owner']] = got.get(r['owner'], 0) + r['n']
        elif e == 'CallResp':
            c = r['c']
            resp_at[c] = i
            iv = inv.get(c, {})
            inflight = c in hdr_by and hdr_by[c] != c and got.get(c, 0) < iv.get('bsz', 0)
            if r['ret'] < 0 and inflight:
                if fid == 'F4' and iv.get('to', -1) >= 0 and not iv.get('early'):
                    victims.add(c)
                if fid == 'C11b' and iv.get('early'):
                    victims.add(c)
        elif e in ('CtxTouched', 'BufTouched', 'LateInterrupt'):
            evidence.append(r['c'])
    if not evidence or any(v not in victims for v in evidence):
        return []
    return sorted(set(evidence))


def _accepted(ctx, rows, env, tag):
    """one TLC run of Trace_RpcA on the given rows with the given switches"""
    p = f'{ctx.out}/{tag}.ndjson'
    vtlib.write_ndjson(p, rows)
    r = ctx.trace_check('Trace_RpcA', 'Trace_RpcA.cfg', p, timeout=600, xmx='2g', tag=tag, extra_env=dict(env, **JOPTS))
    os.unlink(p)
    return r['accepted'] and not r['other_inv']


def make_classifier(tol):
    """for --replay of a single saved execution: rejected by the default specification, accepted with exactly the finding's switch,
    and showing the finding's signature"""
    def classify(ctx, prim, rj):
        for fid, env in (('F4', {'KF_F4': '1'}), ('C11b', {'KF_C11B': '1'})):
            if fid in tol and signature(rj['exec'], fid) and synccheck.accepted_with(ctx, 'Trace_RpcA', 'Trace_RpcA.cfg', rj, env, f'kf_{fid}_{prim}'):
                return (fid, KNOWN_TEXT[fid])
        return None
    return classify


def conformance(ctx, modes, env, on_rows):
    """variant of synccheck.run_modes: the harness modes run side by side (they mostly sleep), every trace is validated in small
    chunks in parallel"""
    h = ctx.build_harness('h_rpc')

    def run_mode(m):
        prim, execs = m
        trace = f'{ctx.out}/{prim}.ndjson'
        rc, o, e = ctx.run_harness(h, ['--prim', prim, '--execs', execs, '--seed', ctx.seed, '--vcpus', 1, '--threads', 5, '--ops', 1,
                                        '--out', trace], timeout=1500, ok_rcs=(0, 3, 4))
        if rc == 124:
            raise vtlib.InfraError(f'h_rpc --prim {prim} timed out')
        rows = vtlib.read_ndjson(trace)
        if not rows:
            raise vtlib.InfraError(f'h_rpc --prim {prim} recorded nothing')
        on_rows(prim, rows)
        acc, rejs, n = tracecheck.validate(ctx, 'Trace_RpcA', 'Trace_RpcA.cfg', rows, chunk_events=2500, par=6, tagbase=f'Trace_RpcA_{prim}',
                                           extra_env=dict(env, **JOPTS))
        return prim, rows, rejs, n
    with ThreadPoolExecutor(max_workers=len(modes)) as ex:
        results = list(ex.map(run_mode, modes))
    kinds, n_exec = {}, 0
    for prim, rows, rejs, n in results:
        n_exec += n
        for r in rows:
            kinds[r['e']] = kinds.get(r['e'], 0) + 1
        exs = tracecheck.split_execs(rows)
        if len(ctx.samples) < 5:
            ctx.samples.append({'mode': prim, 'recorded_execution': exs[min(2, len(exs) - 1)][:40]})
        tracecheck.report(ctx, rejs, prim, name=f'Trace_RpcA_{prim}')
    ctx.extra['executions_recorded'] = n_exec
    ctx.extra['event_kinds'] = kinds
    ctx.extra['calls'] = {'returned_ok': sum(1 for _, rows, _, _ in results for r in rows if r['e'] == 'CallResp' and r['ret'] >= 0),
                          'returned_error': sum(1 for _, rows, _, _ in results for r in rows if r['e'] == 'CallResp' and r['ret'] < 0)}


def run(ctx):
    tol = tolerated(ctx)
    t = ctx.tier
    ctx.samples.append({'constants': open(f'{vtlib.SPEC}/MC_RpcOoo_asis_{"quick" if t == "quick" else "thorough"}.cfg').read()})
    modes = [('enum', 200), ('rand', 200), ('f4', 6)] if t == 'quick' else [('enum', 1080), ('rand', 6000), ('f4', 40)]
    if 'C11b' in tol or os.environ.get('VERIF_C11_EARLY'):      # (the environment variable: self-test of a repair of C11b on a scratch tree)
        modes.append(('early', 4 if t == 'quick' else 32))
    # The trace specification runs with the switches of the tolerated findings on: it then accepts an access after return ONLY
    # with the finding's signature; everything else is still rejected.  The signature is counted independently on the recorded
    # rows, and for one hit per finding the default specification (no switch) is shown to reject the execution.
    env = {}
    if 'F4' in tol:
        env['KF_F4'] = '1'
    if 'C11b' in tol:
        env['KF_C11B'] = '1'
    hits, samples = {}, []

    def on_rows(prim, rows):
        for ex in tracecheck.split_execs(rows):
            for fid in ('F4', 'C11b'):
                v = signature(ex, fid)
                if v:
                    hits[fid] = hits.get(fid, 0) + 1
                    if not any(s[0] == fid for s in samples):
                        samples.append((fid, prim, ex, v))
    # model checking and conformance side by side (wall clock; the machine is shared)
    with ThreadPoolExecutor(max_workers=1) as bg:
        fut = None if os.environ.get('VERIF_SKIP_MC') else bg.submit(model_check, ctx, tol)
        ctx.build_lib()
        conformance(ctx, modes, env, on_rows)
        mc_ok = True if fut is None else fut.result()
    ctx.extra['known_finding_executions'] = dict(hits)
    ctx.traces_ok -= sum(hits.get(f, 0) for f in tol)          # executions accepted only through a switch are not "accepted"
    for i, (fid, prim, ex, v) in enumerate(samples):
        if fid not in tol:
            continue                    # not tolerated: the specification has already rejected it (VIOLATION above)
        if _accepted(ctx, ex, {}, f'strict_{fid}_{i}'):
            raise vtlib.InfraError(f'{fid}: an execution with the finding\'s signature is accepted by the default specification (classifier and specification disagree)')
        ctx.known(fid, KNOWN_TEXT[fid] + f' (h_rpc --prim {prim}: call {v[0]} returned an error while another caller was reading its response, '
                                         f'which then went on in the returned call\'s buffers / context)')
        if len(ctx.samples) < 10:
            ctx.samples.append({'finding': fid, 'mode': prim, 'recorded_execution': ex[:40]})
    ek = ctx.extra.get('event_kinds', {})
    if not ctx.violations and (not ek.get('StreamRead') or not ek.get('StreamFault') or not ek.get('CallResp')):
        raise vtlib.InfraError('h_rpc recorded no stream activity')
    for fid in sorted(tol):
        if not hits.get(fid):
            print(f'NOTE property={ctx.pid} no recorded execution showed {fid} in this run (timing of the directed scenario) - or it is fixed', flush=True)
    ctx.assumptions = ['one vCPU per stub (required by the API): photon threads switch only at blocking calls',
                       'the stream honours the timeout it is given (per transfer or per wait)',
                       'sequential consistency in the specification']
    return ctx.finish()


def replay(ctx, path):
    tol = tolerated(ctx)
    if path.endswith('.txt'):
        print(open(path).read()[-6000:])
        print('(a TLC counterexample of RpcOoo.tla; re-run the configuration named in the file name)')
        return 1
    return synccheck.replay(ctx, 'Trace_RpcA', 'Trace_RpcA.cfg', path, classify=make_classifier(tol))
