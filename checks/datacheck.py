"""Shared flow for the data-structure properties (C12-C16, C20): TLC checks the transcription against
the reference on an exhaustive small scope; the harness runs the real code on the same scope plus seeded
random larger inputs; a trace specification judges every recorded case with the reference operators and
prints one MISMATCH line per case that disagrees."""
import re, json, os
import vtlib

def mismatches(tlc_out):
    """parse '"MISMATCH <line> <set>"' lines printed by the trace spec; returns {line: text}"""
    res = {}
    for m in re.finditer(r'^"MISMATCH (\d+) (.*)"$', tlc_out, re.M):
        res[int(m.group(1))] = m.group(2).replace('\\"', '"')
    return res

def judge(ctx, module, cfg, trace, classify=None, chunk=40000, what='case'):
    """Validate a one-line-per-case trace; returns number of accepted cases.
    classify(row, text) -> finding id (str) if the mismatch is a listed known finding, else None."""
    rows = vtlib.read_ndjson(trace)
    total_ok = 0
    nchunks = 0
    for start in range(0, len(rows), chunk):
        part = rows[start:start + chunk]
        p = f'{ctx.out}/{os.path.basename(trace)}.{nchunks}.ndjson'
        vtlib.write_ndjson(p, part)
        r = ctx.trace_check(module, cfg, p, timeout=1500, deque=False, tag=f'trace_{module}_{nchunks}')
        nchunks += 1
        if not r['accepted']:
            # the trace spec consumes every line; not reaching the end means the spec could not evaluate a line
            raise vtlib.InfraError(f'{module}: trace not consumed to the end (depth {r["depth"]}/{len(part)}), see {r["log"]}')
        mm = mismatches(r['out'])
        total_ok += len(part) - len(mm)
        for ln in sorted(mm):
            row = part[ln - 1]
            fid = classify(row, mm[ln]) if classify else None
            if fid:
                ctx.known(fid[0], fid[1])
                continue
            if len(ctx.violations) < 5:
                rp = ctx.save_replay(f'{module}_{start+ln}.ndjson', json.dumps(row) + '\n')
                ctx.violation(f'{what} {json.dumps(row)[:300]} :: {mm[ln]}', rp)
            else:
                ctx.violations.append((mm[ln], ''))
    ctx.traces_ok += total_ok
    return total_ok, len(rows)
