"""Shared flow for the data-structure properties (C12-C16, C20): TLC checks the transcription against
the reference on an exhaustive small scope; the harness runs the real code on the same scope plus seeded
random larger inputs; a trace specification judges every recorded case with the reference operators and
prints one MISMATCH line per case that disagrees."""
import re, json, os
import vtlib

def mismatches(tlc_out):
    """parse '"MISMATCH <line> <set>"' lines printed by the trace spec; returns {line: text}"""
    res = {}
    for m in re.finditer(r'^"MISMATCH (\d+) (.*)"$', tlc_out, re.M):
        res[int(m.group(1))] = m.group(2).replace('\\"', '"')
    return res

def judge(ctx, module, cfg, trace, classify=None, chunk=8000, what='case', par=8):
    """Validate a one-line-per-case trace (chunks validated by parallel TLC runs); returns (accepted, total).
    classify(row, text) -> (finding id, description) if the mismatch is a listed known finding, else None."""
    from concurrent.futures import ThreadPoolExecutor
    rows = vtlib.read_ndjson(trace)
    chunks = []
    for n, start in enumerate(range(0, len(rows), chunk)):
        part = rows[start:start + chunk]
        p = f'{ctx.out}/{os.path.basename(trace)}.{n}.ndjson'
        vtlib.write_ndjson(p, part)
        chunks.append((n, start, part, p))
    def work(c):
        n, start, part, p = c
        return c, ctx.trace_check(module, cfg, p, timeout=1500, deque=False, xmx='3g', tag=f'trace_{module}_{n}')
    total_ok = 0
    with ThreadPoolExecutor(max_workers=par) as ex:
        results = list(ex.map(work, chunks))
    for (n, start, part, p), r in results:
        if not r['accepted']:
            # the trace spec consumes every line; not reaching the end means the spec could not evaluate a line
            raise vtlib.InfraError(f'{module}: trace not consumed to the end (depth {r["depth"]}/{len(part)}), see {r["log"]}')
        mm = mismatches(r['out'])
        total_ok += len(part) - len(mm)
        for ln in sorted(mm):
            row = part[ln - 1]
            fid = classify(row, mm[ln]) if classify else None
            if fid:
                ctx.known(fid[0], fid[1])
                continue
            if len(ctx.violations) < 5:
                rp = ctx.save_replay(f'{module}_{start+ln}.ndjson', json.dumps(row) + '\n')
                ctx.violation(f'{what} {json.dumps(row)[:300]} :: {mm[ln]}', rp)
            else:
                ctx.violations.append((mm[ln], ''))
        os.unlink(p)
    ctx.traces_ok += total_ok
    return total_ok, len(rows)
