"""C18 RangeLock: held ranges never overlap, waiters proceed when the conflict is gone.
 (1) TLC: RangeLock.tla (one action per critical section under m_lock; the std::set as its in-order sequence with the code's
     comparator and saturating `end`; per-entry condition variable with atomic release-and-wait) for HeldDisjoint, IndexOrdered /
     LookupExact, IndexIsHeld, WaiterAttached, NoStaleWaiter, NoStuck: the design as written on the region outside the recorded
     findings, the proposed repair on the whole scope, the recorded findings as expected counterexamples with a checked signature,
     deliberately broken variants that must be caught.
 (2) conformance, sequential exhaustive: h_rangelock --prim seq runs every sequence of k calls over a small word on the REAL
     RangeLock (top-of-the-64-bit-space word and a low word), judged by Trace_RangeLockSeq.tla (abstract held set).
 (3) conformance, concurrent Tier A: h_rangelock --prim conc | dir (random programs on 1-3 vCPUs, directed arrival orders),
     validated against the abstract object by Trace_RangeLockA.tla (linearizability + occupancy map + Settle)."""
import os, re, json
from concurrent.futures import ThreadPoolExecutor
import vtlib
from checks import tracecheck

META = dict(
    text='TLC exhausts a critical-section model of RangeLock (ordered set as in-order sequence with the coded comparator end(a) <= b.offset and saturating end, lower_bound / emplace_hint as libstdc++ performs them, per-entry waiter sets, try_lock_wait / try_lock_wait2 / lock retry loop / unlock(handle) / unlock(range) / adjust_range, interrupts of sleeping try-calls) for: held byte ranges pairwise disjoint after every step, the container order assumption (lookup exact), every stored entry held with the extent its holder believes, waiters attached to live entries, no sleeper whose conflict is gone, no thread stuck in lock(); on all ranges of a small word (nested, adjacent, zero-length, saturating) with 3 threads x 2 operations. The REAL RangeLock is executed on every sequence of 2-4 calls over small words placed at the top of the 64-bit space (saturation) and low, plus seeded random longer sequences, each followed by release-everything + lock-the-whole-word, judged per call by the abstract held set (granted => shares no byte with a held range; refused => touches a held range; unlock releases; adjust keeps disjointness). Random concurrent programs (blocking lock, try variants, adjust, unlock by handle / by range, interrupts) on 1-3 vCPUs and directed arrival orders are recorded (Inv/Resp, occupancy claims while holding, sleepers at rest) and validated by TLC against the abstract object (linearizability, claims never share a byte, nobody asleep unless it touches a range held now, whole word lockable at the end).',
    note='TLC results hold for the stated small word and population. Conformance samples schedules (OS scheduling on 1-3 vCPUs) and is exhaustive only for the sequential scope. Byte 2^64-1 itself cannot be held (end is exclusive and saturates). A request that covers no byte may or may not be made to wait by a range strictly containing its offset (the property is silent). Asleep = thread state SLEEPING inside the call at two inspections 10 ms apart. After the std::set precondition has been violated (recorded finding F11) the harness stops releasing on that object.',
    technique='TLA+ critical-section model checked exhaustively by TLC; TLC judgement of exhaustive call sequences executed on the real class; TLC trace validation (linearizability against the abstract held set) of recorded concurrent executions',
    design='3/C18')

JOPTS = {'JAVA_TOOL_OPTIONS': '-XX:ParallelGCThreads=2 -XX:CICompilerCount=2'}      # many JVMs run side by side
KNOWN_TEXT = {
    'F11': 'two held ranges that cover no byte at the same offset (zero length, or offset+length saturating at offset, e.g. (2^64-1,5) and (2^64-1,6)) are each "less than" the other: std::set precondition violated (common/range-lock.h:124-127), the second insertion unlinks a stored entry and a later overlapping request is granted',
    'C18a': 'unlock(offset, length) does not release a range that covers no byte locked as (offset, length) through try_lock_wait (lower_bound skips it, common/range-lock.h:48): the entry stays forever and blocks every later request around that offset',
    'C18b': 'adjust_range() does not wake the threads sleeping on the adjusted entry (common/range-lock.h:96-98): a waiter whose conflict was adjusted away stays asleep until that entry is finally unlocked',
}
# Findings met by this check that are not (yet) listed in known-findings.json.  Each is tolerated only through its switch in the
# specifications (KF_<id>) / its counterexample signature.  DELETE an id here when its fix: commit lands (and make the repaired
# design the one "as written": FixEmpty / FixAdjust in the MC_RangeLock_asis* configurations) or when it is entered as open.
PROVISIONAL = set()     # F11, C18a (fix: 800ac90) and C18b (fix: 084eec4) are repaired


def tolerated(ctx):
    if 'VERIF_C18_TOLERATE' in os.environ:          # self-test on a scratch copy (e.g. with the proposed repair applied): explicit list, may be empty
        return {k for k in os.environ['VERIF_C18_TOLERATE'].split(',') if k}
    listed = {f['id'] for f in ctx.kf.get('open', []) if f.get('property') == 'C18' and f.get('id') in KNOWN_TEXT}
    return set(PROVISIONAL) | listed


# ------------------------------------------------------------------------------------------------ model checking
def _states(out):
    """[(action name, {var: text})] of the counterexample printed by TLC"""
    res = []
    for m in re.finditer(r'^State \d+: <?(\w+)[^\n]*\n(.*?)(?=^State \d+:|^\d+ states generated|\Z)', out, re.S | re.M):
        vs = {}
        for v in re.finditer(r'^/\\ (\w+) = (.*?)(?=^/\\ |\Z)', m.group(2), re.S | re.M):
            vs[v.group(1)] = re.sub(r'\s+', ' ', v.group(2)).strip()
        res.append((m.group(1), vs))
    return res


def _entries(text):
    return [(int(a), int(b)) for a, b in re.findall(r'\[off \|-> (\d+), len \|-> (\d+), id', text)]


def _twin_empties(vs, maxu):
    es = _entries(vs.get('index', '')) + _entries(vs.get('lost', ''))
    offs = [o for o, n in es if min(maxu, o + n) == o]
    return len(offs) != len(set(offs))


def _signature(r, maxu):
    """which recorded finding does this counterexample show?  (invariant, last action, shape of the states)"""
    st = _states(r['out'])
    inv = set(r['inv_violated'])
    if not st or not inv:
        return None
    last_act, last = st[-1]
    if inv <= {'IndexOrdered', 'LookupExact'} and last_act in ('Start', 'Resume') and _twin_empties(last, maxu):
        return 'F11'
    if inv == {'HeldDisjoint'} and any(_twin_empties(vs, maxu) for _, vs in st[:-1]) and 'lost = {}' not in ('lost = ' + last.get('lost', '{}')):
        return 'F11'
    if inv <= {'IndexIsHeld', 'NoStuck'} and any(a == 'UnlockR' for a, _ in st):
        # after the UnlockR step the container still holds an entry that covers no byte and that nobody owns
        for a, vs in st:
            if a == 'UnlockR' and any(min(maxu, o + n) == o for o, n in _entries(vs.get('index', ''))) and 'id |->' not in vs.get('own', '').replace('{}', ''):
                return 'C18a'
        return 'C18a' if last_act in ('UnlockR', 'Start') else None
    if inv == {'NoStaleWaiter'} and last_act == 'Adjust':
        return 'C18b'
    return None


def _cfg(ctx, base, name, **subst):
    s = open(f'{vtlib.SPEC}/{base}').read()
    for k, v in subst.items():
        if k == 'INVARIANTS':
            s = re.sub(r'^INVARIANTS .*$', 'INVARIANTS ' + v, s, flags=re.M)
        else:
            s, n = re.subn(r'^  %s = .*$' % k, '  %s = %s' % (k, v), s, flags=re.M)
            assert n == 1, (base, k)
    p = f'{ctx.out}/{name}'
    with open(p, 'w') as f:
        f.write(s)
    return p


def model_check(ctx, tol):
    """all TLC runs of the protocol model are started together (each with a few workers) and judged afterwards"""
    t = ctx.tier
    size = 'quick' if t == 'quick' else 'thorough'
    ALL = 'TypeOK HeldDisjoint IndexOrdered LookupExact IndexIsHeld WaiterAttached NoStaleWaiter NoStuck'
    maxu = int(re.search(r'MAXU = (\d+)', open(f'{vtlib.SPEC}/MC_RangeLock_asis_{size}.cfg').read()).group(1))
    jobs = []          # (kind, key, cfg path, what)
    # (a) the design as written, on the region outside the recorded findings: must pass
    inv, sub = ALL, {}
    if tol & {'F11', 'C18a'}:
        sub['OnlyNonEmpty'] = 'TRUE'
    if 'C18b' in tol:
        inv = inv.replace(' NoStaleWaiter', '')
    jobs.append(('pass', 'asis_rest', _cfg(ctx, f'MC_RangeLock_asis_{size}.cfg', f'MC_RangeLock_asis_rest_{size}.cfg', INVARIANTS=inv, **sub),
                 'as written' + (', requests covering at least one byte' if sub else '') + (', NoStaleWaiter not demanded' if 'C18b' in tol else '')))
    # (b) the design as written on the whole scope: each recorded finding must show up with its signature, nothing else
    for fid, invs in (('F11', 'IndexOrdered LookupExact'), ('F11', 'HeldDisjoint'), ('C18a', 'IndexIsHeld NoStuck'), ('C18b', 'NoStaleWaiter')):
        if fid in tol:
            jobs.append(('finding', (fid, invs), _cfg(ctx, f'MC_RangeLock_asis_{size}.cfg', f'MC_RangeLock_asis_{fid}_{invs.split()[0]}.cfg', INVARIANTS=invs), fid))
    # (c) the proposed repair, whole scope, every invariant: must pass
    jobs.append(('pass', 'patched', f'{vtlib.SPEC}/MC_RangeLock_patched_{size}.cfg', 'proposed repair: FixEmpty + FixAdjust'))
    if t != 'quick':
        jobs.append(('pass', 'patched_intr', f'{vtlib.SPEC}/MC_RangeLock_patched_intr.cfg', 'proposed repair, sleeping calls interrupted'))
        jobs.append(('pass', 'patched_live', f'{vtlib.SPEC}/MC_RangeLock_patched_live.cfg', 'proposed repair, liveness: a thread sleeping in lock() eventually acquires (weak fairness, lock()-only callers)'))
        # word 0..7 (the scope named in DESIGN.md) is far too large to exhaust: seeded random behaviours
        jobs.append(('sim', 'patched_sim7', f'{vtlib.SPEC}/MC_RangeLock_patched_sim7.cfg', 'proposed repair, word 0..7, random behaviours'))
        jobs.append(('sim', 'asis_rest_sim7', _cfg(ctx, 'MC_RangeLock_asis_sim7.cfg', 'MC_RangeLock_asis_rest_sim7.cfg', INVARIANTS=inv, **sub),
                     'as written outside the recorded findings, word 0..7, random behaviours'))
    # (d) anti-vacuity: deliberately broken variants of the repaired design must be caught
    EXPECT = {'nonotify': {'WaiterAttached', 'NoStaleWaiter', 'NoStuck'}, 'adjnocheck': {'HeldDisjoint', 'IndexOrdered', 'LookupExact'},
              'lbskip': {'HeldDisjoint', 'IndexOrdered', 'LookupExact'}}
    for br in (('nonotify',) if t == 'quick' else ('nonotify', 'adjnocheck', 'lbskip')):
        jobs.append(('broken', br, _cfg(ctx, f'MC_RangeLock_patched_{size}.cfg', f'MC_RangeLock_broken_{br}.cfg', Broken=f'"{br}"'), br))

    def work(j):
        kind, key, cfgp, what = j
        if kind == 'sim':
            return j, ctx.mc('MC_RangeLock', cfgp, timeout=3000, workers=2, simulate=400, depth=40, xmx='4g', env=dict(JOPTS),
                             extra_args=('-seed', str(ctx.seed)), tag=os.path.basename(cfgp).replace('.cfg', ''))
        return j, ctx.mc('MC_RangeLock', cfgp, timeout=3000, workers=4 if kind != 'pass' else 6, count=(kind == 'pass'), xmx='6g', env=dict(JOPTS),
                         tag=os.path.basename(cfgp).replace('.cfg', ''))
    with ThreadPoolExecutor(max_workers=len(jobs)) as ex:
        results = list(ex.map(work, jobs))
    ok, doc, caught = True, {}, {}
    for (kind, key, cfgp, what), r in results:
        if kind in ('pass', 'sim'):
            if kind == 'sim':
                m = re.search(r'The number of states generated: (\d+)', r['out'])
                ctx.extra.setdefault('random_behaviours_word_0_7', {})[key] = {'states_checked': int(m.group(1)) if m else 0, 'rc': r['rc']}
            if r['rc'] != 0:
                rp = ctx.save_replay(f'mc_{os.path.basename(cfgp)}.txt', r['out'][-8000:])
                ctx.violation(f'specification RangeLock ({what}) violates {r["inv_violated"] or ("a temporal property" if r["prop_violated"] else "a property")}', rp)
                ok = False
        elif kind == 'finding':
            fid, invs = key
            if r['rc'] == 0:
                print(f'NOTE property={ctx.pid} the specification as written no longer shows {fid} ({invs}); if the finding is fixed remove it from PROVISIONAL', flush=True)
                continue
            sig = _signature(r, maxu)
            if sig != fid:
                rp = ctx.save_replay(f'mc_asis_{fid}.txt', r['out'][-8000:])
                ctx.violation(f'specification RangeLock (as written) violates {r["inv_violated"]} with a counterexample that is not the recorded finding {fid}', rp)
                ok = False
                continue
            st = _states(r['out'])
            ctx.known(fid, KNOWN_TEXT[fid] + f' (TLC counterexample to {"/".join(r["inv_violated"])} on the specification as written)')
            doc.setdefault(fid, []).append({'invariant': r['inv_violated'], 'steps': [a for a, _ in st][1:],
                                            'final_index': st[-1][1].get('index'), 'unreachable': st[-1][1].get('lost')})
        else:
            caught[key] = r['inv_violated']
            if not (set(r['inv_violated']) & EXPECT[key]):
                raise vtlib.InfraError(f'self-test: broken variant {key} of RangeLock.tla was not caught ({r["inv_violated"]}), see {r["log"]}')
    ctx.extra['counterexamples_of_recorded_findings'] = doc
    ctx.extra['broken_variants_caught'] = caught
    return ok


# ------------------------------------------------------------------------------------------------ sequential conformance
def seq_plans(tier):
    """(tag, harness args): exhaustive scopes + random sequences"""
    if tier == 'quick':
        return [('top_S2_len3', ['--prim', 'seq', '--S', 2, '--len', 3, '--top', 1]),
                ('top_S3_len3_handle', ['--prim', 'seq', '--S', 3, '--len', 3, '--top', 1, '--alpha', 'handle']),
                ('top_S2_len4_lock', ['--prim', 'seq', '--S', 2, '--len', 4, '--top', 1, '--alpha', 'lock']),
                ('top_S7_len2', ['--prim', 'seq', '--S', 7, '--len', 2, '--top', 1]),
                ('low_S3_len2', ['--prim', 'seq', '--S', 3, '--len', 2, '--top', 0, '--base', 4096]),
                ('random', ['--prim', 'seqrand', '--execs', 10000])]
    return [('top_S3_len3', ['--prim', 'seq', '--S', 3, '--len', 3, '--top', 1]),
            ('top_S3_len4_lock', ['--prim', 'seq', '--S', 3, '--len', 4, '--top', 1, '--alpha', 'lock']),
            ('top_S7_len2', ['--prim', 'seq', '--S', 7, '--len', 2, '--top', 1]),
            ('top_S7_len3_handle', ['--prim', 'seq', '--S', 7, '--len', 3, '--top', 1, '--alpha', 'handle']),
            ('top_S4_len3', ['--prim', 'seq', '--S', 4, '--len', 3, '--top', 1]),
            ('low_S3_len3', ['--prim', 'seq', '--S', 3, '--len', 3, '--top', 0, '--base', 0]),
            ('low_S7_len2', ['--prim', 'seq', '--S', 7, '--len', 2, '--top', 0, '--base', 1099511627776]),
            ('random', ['--prim', 'seqrand', '--execs', 100000])]


def judge_rows(ctx, trace, tol, tag, chunk=30000, par=10):
    """rows -> chunks -> parallel TLC runs of Trace_RangeLockSeq; returns (rows judged, rows accepted by the property, hits per finding)"""
    chunks, part, total = [], None, 0
    with open(trace) as f:
        for line in f:
            if part is None:
                p = f'{ctx.out}/{tag}.{len(chunks)}.part'
                part = [open(p, 'w'), p, 0, total]
            part[0].write(line); part[2] += 1; total += 1
            if part[2] >= chunk:
                part[0].close(); chunks.append(part[1:]); part = None
    if part is not None:
        part[0].close(); chunks.append(part[1:])
    env = {'KF_' + k: '1' for k in tol if k in ('F11', 'C18a')}
    env['JAVA_TOOL_OPTIONS'] = '-XX:ParallelGCThreads=2 -XX:CICompilerCount=2'

    def work(c):
        p, n, start = c
        e = dict(env); e['TRACE'] = p
        r = ctx.tlc('Trace_RangeLockSeq', 'Trace_RangeLockSeq.cfg', workers=1, timeout=3600, env=e, xmx='3g', tag=f'seq_{tag}_{start // chunk}')
        return c, r
    with ThreadPoolExecutor(max_workers=par) as ex:
        results = list(ex.map(work, chunks))
    ok_rows, hits = 0, {}
    for (p, n, start), r in results:
        m = re.search(r'<<"JUDGED", (\d+)>>', r['out'])
        if r['timeout'] or r['rc'] != 0 or not m or int(m.group(1)) != n:
            raise vtlib.InfraError(f'Trace_RangeLockSeq: rows of {tag} not judged to the end, see {r["log"]}')
        bad = {int(a): b.replace('\\"', '"') for a, b in re.findall(r'^"MISMATCH (\d+) (.*)"$', r['out'], re.M)}
        kf = {int(a): re.findall(r'\\"(\w+)\\"', b) for a, b in re.findall(r'^"KFHIT (\d+) (.*)"$', r['out'], re.M)}
        ok_rows += n - len(bad) - len(kf)
        lines = open(p).read().splitlines() if (bad or kf) else []
        for ln in sorted(kf):
            for fid in kf[ln]:
                if fid not in hits:
                    ctx.known(fid, KNOWN_TEXT[fid] + ' (real RangeLock, call sequence ' + _show(json.loads(lines[ln - 1])) + ')')
                hits[fid] = hits.get(fid, 0) + 1
        for ln in sorted(bad):
            row = json.loads(lines[ln - 1])
            if len(ctx.violations) < 5:
                rp = ctx.save_replay(f'seq_{tag}_{start + ln}.ndjson', json.dumps(row, separators=(',', ':')) + '\n')
                ctx.violation(f'call sequence on the real RangeLock: {_show(row)} :: {bad[ln]}', rp)
            else:
                ctx.violations.append((bad[ln], ''))
        os.unlink(p)
    ctx.traces_ok += ok_rows
    return total, ok_rows, hits


def _show(row):
    """human-readable call sequence of a Seq row"""
    if row.get('e') != 'Seq':
        return json.dumps(row)[:200]
    names = {1: 'try_lock_wait2', 2: 'try_lock_wait', 3: 'unlock(h#', 4: 'unlock', 5: 'adjust_range(h#'}
    out = []
    for i, (k, a, b, c, res) in enumerate(op[:5] for op in row['ops']):
        if i == row['n']:
            out.append('| epilogue:')
        if k in (1, 2):
            out.append(f'{names[k]}({a},{b})={"granted" if res == 1 else "blocked"}')
        elif k == 3:
            out.append(f'unlock(h#{a})' + (' [not called]' if res == -9 else ''))
        elif k == 4:
            out.append(f'unlock({a},{b})' + (' [not called]' if res == -9 else ''))
        else:
            out.append(f'adjust_range(h#{a},{b},{c})={"ok" if res == 1 else "not called" if res == -9 else "refused"}')
    return f'[word top M={row["M"]}] ' + ' '.join(out) if row['M'] < 1000 else '[low word] ' + ' '.join(out)


def record_seq(ctx, h):
    """run the sequential scopes on the real code; all rows go to one file (every row carries its word)"""
    allp = f'{ctx.out}/seq_all.ndjson'
    scopes = {}
    with open(allp, 'w') as out:
        for tag, args in seq_plans(ctx.tier):
            trace = f'{ctx.out}/seq_{tag}.ndjson'
            rc, o, e = ctx.run_harness(h, args + ['--seed', ctx.seed, '--out', trace], timeout=1500, ok_rcs=(0, 3, 4))
            if rc == 124:
                raise vtlib.InfraError(f'h_rangelock {args} timed out')
            n = 0
            with open(trace) as f:
                for line in f:
                    out.write(line); n += 1
                    if n == 1000 and tag.startswith('top_S') and len(ctx.samples) < 3:
                        ctx.samples.append({'sequential_case': json.loads(line)})
            if n == 0:
                raise vtlib.InfraError(f'h_rangelock {args} recorded nothing')
            scopes[tag] = n
            os.unlink(trace)
    return allp, scopes


def run_seq(ctx, allp, scopes, tol):
    total = sum(scopes.values())
    par = 8 if ctx.tier == 'quick' else 12
    chunk = max(5000, min(60000, total // par + 1))
    n, k, hits = judge_rows(ctx, allp, tol, 'all', chunk=chunk, par=par)
    os.unlink(allp)
    ctx.extra.update({'sequences_executed_on_real_code': n, 'sequences_accepted_by_the_property': k,
                      'sequences_explained_only_by_recorded_findings': hits, 'sequential_scopes': scopes})


# ------------------------------------------------------------------------------------------------ concurrent conformance
def record_conc(ctx, h):
    t = ctx.tier
    modes = [('dir', 18, 1), ('conc', 120, 3)] if t == 'quick' else [('dir', 45, 1), ('conc', 3000, 12)]
    rows, kinds = [], {}
    for prim, execs, batches in modes:
        got = 0
        for b in range(batches):                      # several processes: a crash or hang costs one batch only
            trace = f'{ctx.out}/{prim}_{b}.ndjson'
            rc, o, e = ctx.run_harness(h, ['--prim', prim, '--execs', execs // batches, '--seed', ctx.seed * 100 + b, '--vcpus', 3, '--threads', 4,
                                            '--ops', 5, '--out', trace], timeout=1500, ok_rcs=(0, 3, 4))
            if rc == 124:
                raise vtlib.InfraError(f'h_rangelock --prim {prim} timed out')
            part = vtlib.read_ndjson(trace)
            got += len(part)
            rows += part
            os.unlink(trace)
        if not got:
            raise vtlib.InfraError(f'h_rangelock --prim {prim} recorded nothing')
    for r in rows:
        k = r['e'] + (':' + str(r['op']) if 'op' in r else '') + (':refused' if r['e'] == 'Resp' and r.get('r') == 0 else '')
        kinds[k] = kinds.get(k, 0) + 1
    ctx.extra['event_kinds'] = kinds
    return rows


def run_conc(ctx, rows, tol):
    kf_all = {'KF_' + k: '1' for k in tol}
    kf_all.update(JOPTS)
    ex = tracecheck.split_execs(rows)
    # executions used to tell which recorded findings were met: the directed arrival orders and the first random ones
    ex2 = [e for e in ex if e[0].get('prim') == 'dir'] + [e for e in ex if e[0].get('prim') != 'dir'][:30 if ctx.tier == 'quick' else 600]
    for e in ex:
        if e[0].get('prim') == 'conc' and len(ctx.samples) < 8:
            ctx.samples.append({'recorded_execution': e[:40]})
            break
    with ThreadPoolExecutor(max_workers=1 + len(tol)) as pool:
        # pass 1: the property plus the switches of the recorded findings: whatever is still rejected is new
        f1 = pool.submit(tracecheck.validate, ctx, 'Trace_RangeLockA', 'Trace_RangeLockA.cfg', rows, extra_env=kf_all, tagbase='rlA', max_rej=4, par=6, timeout=3000)
        # pass 2: which recorded findings were needed?  (one switch off at a time; an execution that is now rejected needed it)
        f2 = {fid: pool.submit(_first_rejected, ctx, ex2, {k: v for k, v in kf_all.items() if k != 'KF_' + fid}, f'rlA_no{fid}') for fid in sorted(tol)}
        acc, rejs, n = f1.result()
        hits = {fid: f.result() for fid, f in f2.items()}
    tracecheck.report(ctx, rejs, 'recorded execution', name='rlA')
    bad = {id(rj['exec'][0]) for rj in rejs}
    for fid, hit in hits.items():
        if hit is not None and id(hit[0]) not in bad:
            ctx.known(fid, KNOWN_TEXT[fid] + f' (real RangeLock, recorded {hit[0].get("prim")} execution: ' + _brief(hit) + ')')
            ctx.extra.setdefault('recorded_findings_in_executions', []).append(fid)
    ctx.extra['executions_recorded'] = n


def _first_rejected(ctx, execs, env, tag, chunk_events=2500, par=4):
    """validate chunks without isolating; returns one execution that is rejected under `env` (or None)"""
    chunks, cur, n = [], [], 0
    for e in execs:
        if cur and n + len(e) > chunk_events:
            chunks.append(cur); cur = []; n = 0
        cur.append(e); n += len(e)
    if cur:
        chunks.append(cur)

    def work(ci):
        flat = [r for e in chunks[ci] for r in e]
        r = tracecheck._run(ctx, 'Trace_RangeLockA', 'Trace_RangeLockA.cfg', flat, f'{tag}_c{ci}', 3000, env)
        if r['accepted']:
            return None
        k, pos = r['maxl'] or 1, 0
        for e in chunks[ci]:
            if pos + len(e) >= k:
                return e
            pos += len(e)
        return chunks[ci][-1]
    with ThreadPoolExecutor(max_workers=par) as ex:
        for res in ex.map(work, range(len(chunks))):
            if res is not None:
                return res
    return None


def _brief(ex):
    calls = [f't{r["t"]}:{r["op"]}({r.get("off", "")},{r.get("len", "")})' if 'off' in r else f't{r["t"]}:{r["op"]}(#{r.get("id", "")})' for r in ex if r['e'] == 'Inv']
    s = ' '.join(calls)
    return (ex[0].get('name', '') + ' ' + s)[:300]


def run(ctx):
    tol = tolerated(ctx)
    size = 'quick' if ctx.tier == 'quick' else 'thorough'
    ctx.samples.append({'constants': open(f'{vtlib.SPEC}/MC_RangeLock_patched_{size}.cfg').read()})
    # the real code first (the harness is timing-sensitive: settle detection, watchdog), then all TLC work side by side
    ctx.build_lib()
    h = ctx.build_harness('h_rangelock')
    allp, scopes = record_seq(ctx, h)
    rows = record_conc(ctx, h)
    with ThreadPoolExecutor(max_workers=3) as pool:
        fs = [pool.submit(run_seq, ctx, allp, scopes, tol), pool.submit(run_conc, ctx, rows, tol)]
        if not os.environ.get('VERIF_SKIP_MC'):
            fs.append(pool.submit(model_check, ctx, tol))
        for f in fs:
            f.result()
    ctx.extra['findings_tolerated_by_switch'] = sorted(tol)
    ctx.assumptions = ['sequential consistency in the specification; m_lock makes every RangeLock operation one critical section',
                       'callers follow the discipline stated in RangeLock.tla (no request touching an own range, lock() only while holding nothing, unlock by range exactly what was locked by range)',
                       'condition-variable wait under the spinlock is atomic release-and-wait (decided by C03)',
                       'kernel / OS scheduling picks the interleavings that are sampled']
    return ctx.finish()


def replay(ctx, path):
    tol = tolerated(ctx)
    if path.endswith('.txt'):
        print(open(path).read()[-3000:])
        print('(TLC counterexample on the specification; re-run bin/check C18 to re-check)')
        return 1
    first = open(path).readline()
    if '"e":"Seq"' in first.replace(' ', ''):
        n, k, hits = judge_rows(ctx, path, tol, 'replay')
        print(f'replayed {n} sequence(s): {k} accepted by the property, recorded findings {hits}')
    else:
        rows = vtlib.read_ndjson(path)
        kf_all = {'KF_' + k: '1' for k in tol}
        acc, rejs, n = tracecheck.validate(ctx, 'Trace_RangeLockA', 'Trace_RangeLockA.cfg', rows, extra_env=kf_all, tagbase='replay', timeout=3000)
        tracecheck.report(ctx, rejs, 'replay', name='replay')
        bad = {id(rj['exec'][0]) for rj in rejs}
        good = [e for e in tracecheck.split_execs(rows) if id(e[0]) not in bad]
        for fid in sorted(tol):
            hit = _first_rejected(ctx, good, {k: v for k, v in kf_all.items() if k != 'KF_' + fid}, f'replay_no{fid}') if good else None
            if hit is not None:
                ctx.known(fid, KNOWN_TEXT[fid] + ' (accepted only with the switch of this finding: ' + _brief(hit) + ')')
        print(f'replayed {n} execution(s): {acc} accepted, {len(rejs)} rejected')
    for fid, what in ctx.known_hits:
        print(f'KNOWN-FINDING: property={ctx.pid} {fid}: {what}')
    return 1 if ctx.violations else 0
