"""C16 file adaptors: FileAdaptors.tla (transcribed aligned / linear / stripe adaptors vs. ONE plain reference file,
every request sequence of a small scope) + h_fileadaptor (the real adaptors over recording in-memory files, same scope
plus seeded random sequences with alignment 8..4096 and large units) judged by Trace_FileAdaptors.tla."""
import os, re, glob, sys
import vtlib
from checks import datacheck

META = dict(
   text='TLC applies every sequence of positional read / write requests of a small scope - requests start before end-of-file, '
        'length 0..3A+2 (composites: 0..total+2, i.e. past the end), single-buffer and vectored with up to 3 iovec elements, every '
        'position of a misaligned buffer - to the transcribed AlignedFileAdaptor (A=2: initial sizes 1..8, 2 requests; A=4: sizes '
        '1..14, 1 request, and sizes {5,8,9}, 2 requests; alignMemory on/off; thorough: 3 resp. 2 requests and A=8 with sizes 1..26), '
        'FixedSizeLinearFile (unit 1..4 x 1..3 files), VariableSizeLinearFile (every list of up to 3 sub-files of 1..3 bytes) and '
        'StripeFile (stripe 2 x 1..3 files x 1..2 rows) (2 requests; thorough: units to 5, sizes to 4, stripes 1/2/4, 3 requests on '
        'the smaller ones) and to ONE plain reference file, and checks after every request: same return value, data, content and '
        'size (Transparent); every underlay request of the aligned adaptor has offset and length multiples of A, judged per request, '
        'and aligned memory when alignMemory is on (UnderlayAligned); composites clip at the total size and never resize a sub-file '
        '(Clipped). The real adaptors are run over recording in-memory files on that scope (every (size, offset, length) single-buffer, '
        'a sample of the segmentations) plus seeded random sequences of 3..8 requests (alignment 8..4096, units / stripes up to 8 KiB, '
        '1..5 sub-files, all ten pread/pwrite variants); TLC replays every recorded sequence on the reference and compares return '
        'value, data read, content and size of the underlay / of every sub-file after each request, and the alignment of every '
        'underlay request.',
   note='Requests that start at or after end-of-file are outside the statement and are not generated. The underlay is a plain '
        'in-memory file that never fails and returns short only at its end, so the error paths of the adaptors are not covered. '
        'Contents are compared as runs (writer, position tag mod 31, length): a byte that sits a multiple of 31 positions away from '
        'where it belongs, inside a run of the same writer, would not be seen. The TLC result holds for the stated scope; larger '
        'alignments and sizes only through the seeded random sequences.',
   technique='TLA+ transcription + TLC exhaustive small-scope equivalence with a plain-file reference; trace validation of recorded '
             'request sequences of the real code (TLC replays each on the reference)',
   design='3/C16')

TRACE_MODULE, TRACE_CFG = 'Trace_FileAdaptors', 'Trace_FileAdaptors.cfg'

# Finding met by this check on the pinned tree that is not (yet) listed in known-findings.json.  It is tolerated only with
# its exact signature (classify() below) and printed as a KNOWN-FINDING line.  DELETE the id here when a fix: commit lands
# (AlignedAlloc then serves small alignments and the rows simply agree) or when it is entered as open in known-findings.json.
KNOWN_TEXT = {
    'C16a': 'new_aligned_file_adaptor(file, alignment 2 or 4, align_memory=true) with its own allocator: every request that needs a '
            'temporary buffer (unaligned offset / length / buffer) returns -1 where a plain file succeeds, because AlignedAlloc calls '
            'posix_memalign() with an alignment below sizeof(void*) (EINVAL) (common/io-alloc.h:104, used by fs/aligned-file.cpp:51)',
}
PROVISIONAL = set()      # C16a repaired by fix: commit 3b25e23
TOLERATED = set(PROVISIONAL)     # run()/replay() add the ids listed open for C16 in known-findings.json


def classify(row, text):
    """Known-finding signature (exact); anything else stays a violation."""
    if 'C16a' not in TOLERATED or row.get('e') != 'Seq' or row.get('ad') != 'aligned':
        return None
    if not (row['am'] and row['A'] < 8 and row['alloc'] == 0):
        return None
    m = re.search(r'request (\d+): returned -1 where the plain file returns (\d+)', text)
    if not m:
        return None
    k, want = int(m.group(1)), int(m.group(2))
    if any(int(x) != k for x in re.findall(r'request (\d+):', text)) or k > len(row['ops']):
        return None
    o, A = row['ops'][k - 1], row['A']
    total = sum(o['lens'])
    needs_buffer = total > 0 and (o['off'] % A or total % A or any(o['ba']) or (o['vec'] and any(l % A for l in o['lens'])))
    before = row['ops'][k - 2]['after'] if k > 1 else [[1, 0, row['size0']]]
    # the request failed before anything reached the underlay, and nothing changed
    if o['ret'] == -1 and o['ul'] == [] and o['after'] == before and needs_buffer and want > 0:
        return ('C16a', KNOWN_TEXT['C16a'])
    return None


def _tolerated(ctx):
    TOLERATED.update(f['id'] for f in ctx.kf.get('open', []) if f.get('property') == 'C16' and f.get('id') in KNOWN_TEXT)

# `bin/check C16 --replay <path>`: vtlib.Ctx() empties /verif/out/C16 before replay() is called, and the replay files
# this check writes live there.  Keep the content of such a file from import time (bin/check imports this module first).
_STASH = None
if '--replay' in sys.argv[1:-1]:
    _p = os.path.abspath(sys.argv[sys.argv.index('--replay') + 1])
    if _p.startswith(f'{vtlib.OUT}/C16/') and os.path.isfile(_p):
        with open(_p) as _f:
            _STASH = (_p, _f.read())


def _drift(ctx):
    """DRIFT lines (information): underlay requests differ from the transcription although the property holds."""
    n = 0
    for p in glob.glob(f'{ctx.out}/tlc_trace_{TRACE_MODULE}_*.log'):
        with open(p, errors='replace') as f:
            n += len(re.findall(r'^"DRIFT ', f.read(), re.M))
    return n


def run(ctx):
    t = ctx.tier
    r = ctx.mc('FileAdaptors', f'MC_FileAdaptors_{t}.cfg', timeout=1500)
    if r['inv_violated'] or r['rc'] != 0:
        rp = ctx.save_replay('mc_counterexample.txt', r['out'][-8000:])
        ctx.violation(f'specification FileAdaptors violates {r["inv_violated"]} (transcribed adaptor is not transparent / aligned)', rp)
        return ctx.finish()
    ctx.build_lib()
    h = ctx.build_harness('h_fileadaptor')
    trace = f'{ctx.out}/fileadaptor.ndjson'
    ctx.run_harness(h, ['--out', trace, '--seed', ctx.seed, '--tier', t], timeout=600, ok_rcs=(0, 3))
    _tolerated(ctx)
    ok, n = datacheck.judge(ctx, TRACE_MODULE, TRACE_CFG, trace, classify=classify, what='sequence', chunk=10000, par=8)
    rows = vtlib.read_ndjson(trace)
    seqs = [x for x in rows if x.get('e') == 'Seq']
    nreq = sum(len(x['ops']) for x in seqs)
    kinds = {}
    for x in seqs:
        kinds[x['ad']] = kinds.get(x['ad'], 0) + 1
    variants = sorted({o['v'] for x in seqs[::37] for o in x['ops']})
    small = lambda x: {k: (v if k != 'ops' else v[:3]) for k, v in x.items()}
    ctx.samples = [{'constants': open(f'{vtlib.SPEC}/MC_FileAdaptors_{t}.cfg').read() + ' (scopes: FileAdaptors.tla Scope' + t.capitalize() + ')'},
                   small(seqs[11]), small(seqs[len(seqs) // 2]), small(seqs[-1])]
    ctx.extra.update({'sequences_executed_on_real_code': n, 'sequences_agreeing_with_reference': ok,
                      'requests_executed_on_real_code': nreq, 'sequences_per_adaptor': kinds, 'api_variants': variants,
                      'transcription_drift_sequences': _drift(ctx), 'exhaustive': True,
                      'known_finding_sequences': len(ctx.known_hits),
                      'explanation': 'states = reachable (configuration, file content) states of the request sequences in scope, '
                                     'transitions = (state, request) cases each judged against the plain file; traces = request '
                                     'sequences executed on the real adaptors and replayed on the reference by TLC; '
                                     'transcription_drift_sequences = sequences whose underlay requests are not those of the '
                                     'transcription although the property held (0 = the TLC result speaks about this code)'})
    ctx.assumptions = ['requests start before end-of-file (the statement excludes the others)',
                       'the underlay / sub-files behave like plain files: no errors, short reads only at end-of-file',
                       'sub-files of the variable-size linear file are non-empty (range_split_vi requires ascending key points)',
                       'alignMemory with an alignment below sizeof(void*) is exercised with a harness-supplied allocator '
                       '(AlignedAlloc / posix_memalign rejects such alignments)']
    os.unlink(trace)   # tens of MB; every violation has its own replay file
    return ctx.finish()


def replay(ctx, path):
    path = os.path.abspath(path)
    if not os.path.exists(path) and _STASH and _STASH[0] == path:
        path = ctx.save_replay(os.path.basename(path), _STASH[1])
    if not os.path.exists(path):
        raise vtlib.InfraError(f'replay file not found: {path}')
    if os.path.basename(path).startswith('mc_counterexample'):       # a violation of the specification itself: model-check again
        r = ctx.mc('FileAdaptors', f'MC_FileAdaptors_{ctx.tier}.cfg', timeout=1500)
        if r['inv_violated'] or r['rc'] != 0:
            ctx.violation(f'specification FileAdaptors violates {r["inv_violated"]}', ctx.save_replay('mc_counterexample.txt', r['out'][-8000:]))
        return 1 if ctx.violations else 0
    _tolerated(ctx)
    datacheck.judge(ctx, TRACE_MODULE, TRACE_CFG, path, classify=classify, what='sequence', chunk=10000, par=8)
    for fid in sorted({f for f, _ in ctx.known_hits}):
        print(f'KNOWN-FINDING: property={ctx.pid} {fid}: {KNOWN_TEXT[fid]}', flush=True)
    return 1 if ctx.violations else 0
