"""C16 file adaptors: FileAdaptors.tla (transcribed aligned / linear / stripe adaptors vs. ONE plain reference file,
every request sequence of a small scope) + h_fileadaptor (the real adaptors over recording in-memory files, same scope
plus seeded random sequences with alignment 8..4096 and large units) judged by Trace_FileAdaptors.tla."""
import os, re, glob, sys
import vtlib
from checks import datacheck

META = dict(
   text='TLC applies every sequence of up to 2 (A=2, composites; thorough: 3) positional read / write requests that start before '
        'end-of-file (offset < size, length 0..3A+2 resp. 0..total+2, single-buffer and up to 3 iovec elements, every position of a '
        'misaligned buffer) to the transcribed AlignedFileAdaptor (A in {2,4}, thorough also 8; alignMemory on/off; every initial size '
        '1..3A+2), FixedSizeLinearFile (unit 1..4, 1..3 files), VariableSizeLinearFile (all size lists up to 3 files of 1..3 bytes) and '
        'StripeFile (stripe 2, 1..3 files, 1..2 rows) and to one plain reference file, and checks after every request: same return '
        'value, data, content and size (Transparent), every underlay request of the aligned adaptor has offset and length multiples '
        'of A - memory too with alignMemory - judged per request (UnderlayAligned), composites clip at the total size and never '
        'resize a sub-file (Clipped). The real adaptors are run over recording in-memory files on the same scope plus seeded random '
        'sequences of 3..8 requests (alignment 8..4096, units / stripes up to 8 KiB, 1..5 sub-files, all ten pread/pwrite variants); '
        'every recorded sequence is replayed on the reference by TLC (return value, data, underlay / sub-file content and size '
        'after each request, alignment of each underlay request).',
   note='Requests that start at or after end-of-file are outside the statement and are not generated. The underlay is a plain '
        'in-memory file that never fails and never returns short except at its end; error paths of the adaptors are not covered. '
        'Contents are compared as runs (writer, position tag mod 31, length): a byte that lands 31*k positions away from where it '
        'belongs inside a run of the same writer would not be seen. TLC result holds for the stated scope; larger alignments and '
        'sizes only through the seeded random sequences.',
   technique='TLA+ transcription + TLC exhaustive small-scope equivalence with a plain-file reference; trace validation of recorded '
             'request sequences of the real code (TLC replays each on the reference)',
   design='3/C16')

TRACE_MODULE, TRACE_CFG = 'Trace_FileAdaptors', 'Trace_FileAdaptors.cfg'

# `bin/check C16 --replay <path>`: vtlib.Ctx() empties /verif/out/C16 before replay() is called, and the replay files
# this check writes live there.  Keep the content of such a file from import time (bin/check imports this module first).
_STASH = None
if '--replay' in sys.argv[1:-1]:
    _p = os.path.abspath(sys.argv[sys.argv.index('--replay') + 1])
    if _p.startswith(f'{vtlib.OUT}/C16/') and os.path.isfile(_p):
        with open(_p) as _f:
            _STASH = (_p, _f.read())


def _drift(ctx):
    """DRIFT lines (information): underlay requests differ from the transcription although the property holds."""
    n = 0
    for p in glob.glob(f'{ctx.out}/tlc_trace_{TRACE_MODULE}_*.log'):
        with open(p, errors='replace') as f:
            n += len(re.findall(r'^"DRIFT ', f.read(), re.M))
    return n


def run(ctx):
    t = ctx.tier
    r = ctx.mc('FileAdaptors', f'MC_FileAdaptors_{t}.cfg', timeout=1500)
    if r['inv_violated'] or r['rc'] != 0:
        rp = ctx.save_replay('mc_counterexample.txt', r['out'][-8000:])
        ctx.violation(f'specification FileAdaptors violates {r["inv_violated"]} (transcribed adaptor is not transparent / aligned)', rp)
        return ctx.finish()
    ctx.build_lib()
    h = ctx.build_harness('h_fileadaptor')
    trace = f'{ctx.out}/fileadaptor.ndjson'
    ctx.run_harness(h, ['--out', trace, '--seed', ctx.seed, '--tier', t], timeout=600, ok_rcs=(0, 3))
    ok, n = datacheck.judge(ctx, TRACE_MODULE, TRACE_CFG, trace, what='sequence', chunk=10000, par=8)
    rows = vtlib.read_ndjson(trace)
    seqs = [x for x in rows if x.get('e') == 'Seq']
    nreq = sum(len(x['ops']) for x in seqs)
    kinds = {}
    for x in seqs:
        kinds[x['ad']] = kinds.get(x['ad'], 0) + 1
    variants = sorted({o['v'] for x in seqs[::37] for o in x['ops']})
    small = lambda x: {k: (v if k != 'ops' else v[:3]) for k, v in x.items()}
    ctx.samples = [{'constants': open(f'{vtlib.SPEC}/MC_FileAdaptors_{t}.cfg').read() + ' (scopes: FileAdaptors.tla Scope' + t.capitalize() + ')'},
                   small(seqs[11]), small(seqs[len(seqs) // 2]), small(seqs[-1])]
    ctx.extra.update({'sequences_executed_on_real_code': n, 'sequences_agreeing_with_reference': ok,
                      'requests_executed_on_real_code': nreq, 'sequences_per_adaptor': kinds, 'api_variants': variants,
                      'transcription_drift_sequences': _drift(ctx), 'exhaustive': True,
                      'explanation': 'states = reachable (configuration, file content) states of the request sequences in scope, '
                                     'transitions = (state, request) cases each judged against the plain file; traces = request '
                                     'sequences executed on the real adaptors and replayed on the reference by TLC; '
                                     'transcription_drift_sequences = sequences whose underlay requests are not those of the '
                                     'transcription although the property held (0 = the TLC result speaks about this code)'})
    ctx.assumptions = ['requests start before end-of-file (the statement excludes the others)',
                       'the underlay / sub-files behave like plain files: no errors, short reads only at end-of-file',
                       'sub-files of the variable-size linear file are non-empty (range_split_vi requires ascending key points)',
                       'alignMemory with an alignment below sizeof(void*) is exercised with a harness-supplied allocator '
                       '(AlignedAlloc / posix_memalign rejects such alignments)']
    os.unlink(trace)   # tens of MB; every violation has its own replay file
    return ctx.finish()


def replay(ctx, path):
    path = os.path.abspath(path)
    if not os.path.exists(path) and _STASH and _STASH[0] == path:
        path = ctx.save_replay(os.path.basename(path), _STASH[1])
    if not os.path.exists(path):
        raise vtlib.InfraError(f'replay file not found: {path}')
    datacheck.judge(ctx, TRACE_MODULE, TRACE_CFG, path, what='sequence', chunk=10000, par=8)
    return 1 if ctx.violations else 0
