"""C04 sleep / timeout / interrupt contract.
 (1) TLC: SleepHeap.tla - the sleep queue's hand-written heap with back indices, every operation sequence in a small scope
     (with a broken variant as witness); the scheduler-level races of sleep / expiry / interrupt / standby drain are explored
     in MutexCore.tla (C01) whose invariants OnePlace/OneRunner/FailedNotQueued cover "claimed exactly once".
 (2) conformance Tier A: h_sync --prim sleep against Trace_SleepA.tla (return values, elapsed time, interrupt matching,
     deadline order within a vCPU, nobody left in a sleep queue).
 (3) conformance Tier B: heap dumps after every SleepQueue operation (guarded hook) against the SleepHeap invariants."""
import os, json
import vtlib
from checks import synccheck, datacheck, tracecheck

META = dict(
    text='TLC exhausts the sleep queue heap (SleepHeap.tla: push / pop_front / pop-from-the-middle with up/down transcribed; 5 elements, keys {1,2,3,never}, every operation sequence up to length 6 (thorough 8) from every key assignment) for heap order, back-index consistency, contents and front-is-minimum, with a broken pop as witness. Recorded executions of the real scheduler (populations of 2-12 sleepers with equal / distinct / zero / infinite deadlines on 1-3 vCPUs, yields, same- and cross-vCPU interrupts each with a unique reason) are validated by TLC against the sleep contract: 0 only after the requested time elapsed on the runtime clock, -1/e only for an interrupt with reason e that is consumed once and was not complete before the sleep began, expiry in deadline order within a vCPU, no thread left in a sleep queue; and every heap array dumped by the guarded hook after each sleep-queue operation must satisfy the heap invariants. Further stages, each judged by TLC: thread_shutdown() (Trace_ShutdownA: sleeps of a marked thread end with -1/EPERM far below the requested time; progress-bounded), expiry under a storm of cross-vCPU wake-ups (rounds past the deadline are counted, not time), and photon::Timer as a client of the wake-up reason mechanism (Timer.tla with a no-stored-reason witness, Trace_TimerA).',
    note='Known finding F2 (a reason stored by thread_interrupt() on a READY thread is returned by that thread\'s next sleep) is recognised by its signature and reported as KNOWN-FINDING; any other stale or unmatched delivery is a violation. Wall-clock lateness is not judged (only order and elapsed >= requested). thread_shutdown(): Trace_ShutdownA (a marked thread\'s sleeps end with -1/EPERM far below the requested time, progress-bounded). photon::Timer (Trace_TimerA) is judged here as a client of the mechanism.',
    technique='TLA+ transcription of the heap checked exhaustively by TLC; TLC trace validation of recorded sleep/interrupt executions against the sleep contract; hook-dumped heap states checked against the model invariants',
    design='3/C04')


def f2_hits(rows):
    """F2 signature: a usleep returned -1 with the reason of an interrupt whose call had completed before the sleep was
    invoked, the target being READY when the interrupt looked at it (recorded just before the call as 0 READY, or 1 RUNNING on
    another vCPU)."""
    hits = 0
    for ex in tracecheck.split_execs(rows):
        done_intr = {}          # (target, err) -> position of the interrupt's Resp, for interrupts issued to a READY target
        pend_intr = {}
        sleep_inv = {}
        reported, ready_intr = set(), set()
        for i, r in enumerate(ex):
            e, op = r.get('e'), r.get('op')
            if e == 'Inv' and op == 'interrupt' and r.get('st') in (0, 1, 8):
                pend_intr[r['t']] = (r['target'], r['err'])
                ready_intr.add((r['target'], r['err']))
            elif e == 'Resp' and op == 'interrupt' and r['t'] in pend_intr:
                done_intr[pend_intr.pop(r['t'])] = i
            elif e == 'Inv' and op == 'usleep':
                sleep_inv[r['t']] = i
            elif e == 'Resp' and op == 'yield' and r.get('r'):
                if (r['t'], r['r']) in ready_intr:
                    reported.add((r['t'], r['r']))     # thread_yield() reports the stored reason and leaves it in place
            elif e == 'Resp' and op == 'usleep' and r.get('r') == -1:
                k = (r['t'], r['en'])
                if (k in done_intr and done_intr[k] < sleep_inv.get(r['t'], -1)) or k in reported:
                    hits += 1
                if k in ready_intr:
                    reported.add(k)      # a zero-length sleep (= yield) reports the reason without clearing it: the next sleep reports it again
    return hits


def run(ctx):
    t = ctx.tier
    ctx.samples.append({'constants': open(f'{vtlib.SPEC}/MC_SleepHeap_{t}.cfg').read()})
    if not os.environ.get('VERIF_SKIP_MC'):
        if not synccheck.mc_all(ctx, [('SleepHeap', f'MC_SleepHeap_{t}.cfg', 1500),
                                      # a client of the wake-up reason mechanism: photon::Timer (spec growth beyond the listed properties)
                                      ('Timer', 'MC_Timer.cfg', 600), ('Timer', 'MC_Timer_oneshot.cfg', 600)]):
            return ctx.finish()
        # witness: with a scheduler that drops interrupts to READY threads (the obvious repair of F2) Timer::cancel() breaks
        r = ctx.mc('Timer', 'MC_Timer_nostale.cfg', timeout=600, count=False)
        ctx.extra['timer_relies_on_stored_reason'] = bool(r['inv_violated'])
        if not r['inv_violated']:
            raise vtlib.InfraError('Timer.tla: the no-stale-reason variant is not detected (vacuous model)')
        r = ctx.mc('SleepHeap', 'MC_SleepHeap_broken.cfg', timeout=900, count=False)
        ctx.extra['broken_heap_detected'] = bool(r['inv_violated'])
        if not r['inv_violated']:
            raise vtlib.InfraError('SleepHeap.tla: the broken pop variant is not detected (vacuous model)')
    ctx.build_lib()
    # The specification is run with the switch of recorded finding F2 on: it then accepts a stale reason ONLY with F2's
    # signature (interrupt complete before the sleep was invoked, target READY at the time); every other stale, unmatched or
    # doubly consumed delivery is still rejected.  The signature is counted independently on the recorded rows.
    open_f2 = any(f.get('id') == 'F2' for f in ctx.kf.get('open', []))
    hits = []
    synccheck.run_modes(ctx, [('sleep', 250 if t == 'quick' else 4000)], 'Trace_SleepA', 'Trace_SleepA.cfg',
                        threads=5, ops=6, extra_env={'KF_F2': '1'} if open_f2 else None,
                        on_rows=lambda prim, rows: hits.append(f2_hits(rows)))
    ctx.extra['F2_signature_hits'] = sum(hits)
    if open_f2 and sum(hits):
        ctx.known('F2', 'thread_usleep() returned -1 with the reason of a thread_interrupt() that had completed before the sleep '
                        'was invoked (target READY at the time): the reason is delivered to a later, unrelated sleep')
    # Tier B: heap dumps
    h = ctx.build_harness('h_sync')
    trace = f'{ctx.out}/sleep_heap.ndjson'
    rc, o, e = ctx.run_harness(h, ['--prim', 'sleep', '--execs', 60 if t == 'quick' else 1000, '--seed', ctx.seed + 7, '--vcpus', 3,
                                   '--threads', 24, '--ops', 6, '--hooks', '--heap', '--out', trace], timeout=1500, ok_rcs=(0, 3, 4))
    rows = [r for r in vtlib.read_ndjson(trace) if r.get('e') in ('hHeap', 'Fatal', 'Hang')]
    if not any(r['e'] == 'hHeap' for r in rows):
        raise vtlib.InfraError('no heap dumps recorded: are the guarded hooks compiled in?')
    heap_trace = f'{ctx.out}/heap_only.ndjson'
    vtlib.write_ndjson(heap_trace, rows)
    ok, n = datacheck.judge(ctx, 'Trace_SleepHeapB', 'Trace_SleepHeapB.cfg', heap_trace, what='heap dump', chunk=4000)
    ctx.extra['heap_dumps_checked'] = n
    ctx.extra['max_heap_size_seen'] = max((r.get('n', 0) for r in rows if r['e'] == 'hHeap'), default=0)
    ctx.samples.append({'heap_dump': next(r for r in rows if r['e'] == 'hHeap' and r['n'] >= 3)})
    timer_stage(ctx)
    shutdown_stage(ctx)
    return ctx.finish()


def shutdown_stage(ctx):
    """last clause of C04: a thread marked by thread_shutdown() cannot block for more than the documented bound"""
    h = ctx.build_harness('h_sync')
    trace = f'{ctx.out}/shutdown.ndjson'
    ctx.run_harness(h, ['--prim', 'shutdown', '--execs', 60 if ctx.tier == 'quick' else 800, '--seed', ctx.seed + 11, '--vcpus', 2,
                        '--out', trace], timeout=1500, ok_rcs=(0, 3, 4))
    rows = vtlib.read_ndjson(trace)
    acc, rejs, n = tracecheck.validate(ctx, 'Trace_ShutdownA', 'Trace_ShutdownA.cfg', rows, tagbase='shutA', timeout=900)
    tracecheck.report(ctx, rejs, 'shutdown', name='Trace_ShutdownA_shutdown')
    capped = sum(1 for r in rows if r.get('e') == 'Resp' and r.get('r') == -1 and r.get('en') == 1)
    ctx.extra['shutdown'] = {'executions': n, 'accepted': acc, 'sleeps_ended_with_EPERM': capped,
                             'marked_while_sleeping': sum(1 for r in rows if r.get('e') == 'ShutInv' and r.get('flag') and r.get('st') == 2)}
    if not capped:
        raise vtlib.InfraError('h_sync --prim shutdown: no sleep of a marked thread recorded (vacuous stage)')
    # "no later than the first scheduling round after its deadline, whatever ... are interrupted from other vCPUs": a finite
    # sleeper under a storm of cross-vCPU wake-ups on its vCPU; late ROUNDS are counted (load-independent), judged by the Starve
    # action of the same specification
    trace = f'{ctx.out}/starve.ndjson'
    ctx.run_harness(h, ['--prim', 'starve', '--execs', 12 if ctx.tier == 'quick' else 150, '--seed', ctx.seed + 13, '--vcpus', 2,
                        '--out', trace], timeout=1500, ok_rcs=(0, 3, 4))
    rows = vtlib.read_ndjson(trace)
    acc, rejs, n = tracecheck.validate(ctx, 'Trace_ShutdownA', 'Trace_ShutdownA.cfg', rows, tagbase='starveA', timeout=900)
    tracecheck.report(ctx, rejs, 'starve', name='Trace_ShutdownA_starve')
    st = [r for r in rows if r.get('e') == 'Starve']
    ctx.extra['starve'] = {'executions': n, 'accepted': acc, 'max_late_rounds': max((r['late'] for r in st), default=0),
                           'rounds_with_a_cross_vcpu_wakeup': sum(r['xrounds'] for r in st)}
    if not st or not ctx.extra['starve']['rounds_with_a_cross_vcpu_wakeup']:
        raise vtlib.InfraError('h_sync --prim starve: no storm recorded (vacuous stage)')


def timer_stage(ctx):
    """photon::Timer, the in-tree client of the wake-up reason mechanism (Timer.tla / Trace_TimerA.tla; spec growth beyond C04's
    statement, judged here because a change to sleep / interrupt semantics shows first in Timer::cancel / ~Timer)."""
    h = ctx.build_harness('h_timer')
    trace = f'{ctx.out}/timer.ndjson'
    ctx.run_harness(h, ['--execs', 150 if ctx.tier == 'quick' else 2500, '--seed', ctx.seed + 3, '--out', trace], timeout=1500, ok_rcs=(0, 3, 4))
    rows = vtlib.read_ndjson(trace)
    acc, rejs, n = tracecheck.validate(ctx, 'Trace_TimerA', 'Trace_TimerA.cfg', rows, tagbase='timerA', timeout=900)
    tracecheck.report(ctx, rejs, 'timer', name='Trace_TimerA_timer')
    fires = sum(1 for r in rows if r.get('e') == 'Fire')
    refused = sum(1 for r in rows if r.get('e') == 'OpRet' and r.get('r') == -1)
    ctx.extra['timer'] = {'executions': n, 'accepted': acc, 'fires': fires, 'reset_or_cancel_refused': refused,
                          'destroyed_inside_callback': sum(1 for a, b in zip(rows, rows[1:]) if a.get('e') == 'DtorInv' and b.get('e') == 'FireEnd')}
    if not fires or not refused:
        raise vtlib.InfraError('h_timer: no callback / no refused reset recorded (vacuous timer stage)')


def replay(ctx, path):
    rows = vtlib.read_ndjson(path)
    if any(r.get('e') in ('ShutInv', 'Starve') for r in rows) or any(r.get('prim') in ('shutdown', 'starve') for r in rows):
        acc, rejs, n = tracecheck.validate(ctx, 'Trace_ShutdownA', 'Trace_ShutdownA.cfg', rows, tagbase='replay_shut')
        tracecheck.report(ctx, rejs, 'shutdown', name='Trace_ShutdownA_shutdown')
        return 1 if ctx.violations else 0
    if any(r.get('e') in ('Fire', 'DtorInv', 'New') for r in rows):
        acc, rejs, n = tracecheck.validate(ctx, 'Trace_TimerA', 'Trace_TimerA.cfg', rows, tagbase='replay_timer')
        tracecheck.report(ctx, rejs, 'timer', name='Trace_TimerA_timer')
        return 1 if ctx.violations else 0
    if rows and rows[0].get('e') == 'hHeap':
        datacheck.judge(ctx, 'Trace_SleepHeapB', 'Trace_SleepHeapB.cfg', path, what='heap dump')
        return 1 if ctx.violations else 0
    open_f2 = any(f.get('id') == 'F2' for f in ctx.kf.get('open', []))
    acc, rejs, n = tracecheck.validate(ctx, 'Trace_SleepA', 'Trace_SleepA.cfg', rows, tagbase='replay',
                                       extra_env={'KF_F2': '1'} if open_f2 else None)
    tracecheck.report(ctx, rejs, 'replay', name='replay')
    if open_f2 and f2_hits(rows):
        print(f'KNOWN-FINDING: property={ctx.pid} F2: stale interrupt reason delivered to a later sleep (signature of F2) in the replayed execution', flush=True)
    print(f'replayed {n} execution(s): {acc} accepted, {len(rejs)} rejected')
    return 1 if ctx.violations else 0
