"""C07 lock-free ring queues and RingChannel (common/lockfree_queue.h).
 (1) TLC: RingQueues.tla - LockfreeMPMCRingQueue (push / pop / send / recv), LockfreeBatchMPMCRingQueue (push_batch / pop_batch)
     and LockfreeSPSCRingQueue (push / pop / batch calls) with ONE action per atomic load / CAS / fetch_add / store and per slot
     access, index and mark words that wrap (runs start right below the wrap), for ExactlyOnce, FifoLinearizable (ticket FIFO at
     the index CAS / fetch_add / publishing store + a failed or partial call saw a full / empty queue at one instant),
     PerProducerOrder, CapacityBound, NoTornSlot, and termination under fairness on the 1x1 configurations.
     RingChannel.tla - the idler / pending / queue_sem and send_waiters / send_pending / send_sem protocol of RingChannel and
     FlexRingChannel over the ring (claim + publish), one action per atomic access, timed semaphore waits, for NotStuckNonEmpty,
     NotStuckNonFull, PendingMirrorsCount, the delivery ledger, and deadlock freedom without time-outs.
     Each model has deliberately broken variants that must be caught (anti-vacuity).
 (2) conformance, Tier A: harness/h_ring (template instantiations of the three queues, their Flex variants, RingChannel over all
     three and FlexRingChannel, capacities 2/4/8, OS-thread and photon-thread clients on 1-3 vCPUs, indices preset right below the
     64-bit wrap) judged by Trace_RingA.tla (abstract bounded FIFO, linearizability, Settle / Quiesce observations)."""
import os, json
import vtlib
from checks import synccheck, tracecheck

META = dict(
    text='TLC exhausts protocol models of the three ring queues of common/lockfree_queue.h at atomic-operation granularity (RingQueues.tla: one action per atomic load, compare-exchange, fetch_add, store and per slot read / write; index words and mark words wrap and runs start right below the wrap; MPMC: tail, head, per-slot mark with the turn encoding, push / pop with the full / empty re-test, send / recv by fetch_add and spin on the mark; batch MPMC: tail, write_head, read_tail, head, claim by CAS, element-wise copy, ordered publication; SPSC single and batch calls) for 2 producers x 2 consumers x 2 values with capacity 2 (push/pop, send/recv, mixed), 1 x 1, 2 x 1 and 1 x 2 with 3-5 values across the index wrap (with termination under fairness), and capacity 4, and checks ExactlyOnce (a value whose push / send reported success is returned by exactly one pop / recv or is still stored at the end; nothing else is returned), FifoLinearizable (the consumer holding the k-th head ticket returns the k-th accepted value; a refused or partial call saw a full / empty queue at one instant of the call), PerProducerOrder, CapacityBound and NoTornSlot (no slot read between claim and publication or twice, none overwritten before it was read). RingChannel.tla models send (push with the send_waiters / send_sem backoff, idler load, capped compare-exchange loop on pending, signal) and recv (pop, idler++, re-check pop, timed queue_sem wait, pending--, notify_senders with the symmetric capped loop) of RingChannel / FlexRingChannel over a claim-then-publish ring, one action per atomic access, for populations up to 2 producers x 2 consumers with 2+1 calls per side (and 2 x 1 / 1 x 2 with 3), capacity 2, with and without time-outs, photon and OS-thread producers, and checks NotStuckNonEmpty (no state with an element ready, a consumer asleep in the timed wait, every other consumer outside recv, no token, no producer between its push and the end of send), the symmetric NotStuckNonFull, PendingMirrorsCount, counter sanity, the delivery ledger and deadlock freedom without time-outs. Broken variants (mark published before the slot is written; unordered batch publication; SPSC tail stored before the copy; idler / send_waiters registered after the re-check) must be caught. Recorded executions of the real templates (LockfreeMPMCRingQueue, LockfreeBatchMPMCRingQueue, LockfreeSPSCRingQueue, the three Flex variants, RingChannel over each, FlexRingChannel over MPMC and batch; capacity 2, 4, 8; 1-3 producers and 1-3 consumers, at most 4 client threads, plain OS threads or photon threads on 1-3 vCPUs; push / pop / push_batch / pop_batch / blocking send / recv; every value unique and stored with its complement; index words preset right below 2^64; the unchanged header compiled with schedule points in front of every atomic operation that names its memory order, at the slot copies, and with seeded bounded delays there; directed scenarios that hold a consumer right before idler.fetch_add while a producer completes send, and a producer right before send_waiters.fetch_add while a consumer completes recv) are judged by TLC against the abstract bounded FIFO: every call takes effect at one instant between invocation and response, pops return exactly the head elements (so only values pushed with success, each once, in per-producer order), a pop returns fewer than asked only if that was all there was, a push is refused or cut short only if the queue was that full at an instant of the call (counted as the queue itself counts), at most capacity elements are held, after the final drain (ordinary pops) nothing is left, and whenever the harness finds every thread that is inside a channel call asleep at two inspections 10 ms apart, receivers sleep only on an empty and senders only on a full queue.',
    note='Sequential consistency is assumed in both models: the memory orders and the seq_cst fences of send() / notify_senders() are outside the specification, and weakening them is not detected (DESIGN.md section 4). TLC results hold for the stated populations; the full 2 x 2 x 2 channel population (31.5 million states with and without time-outs, passes) is run only with VERIF_C07_BIG=1. Conformance samples schedules: there are no trace points inside lockfree_queue.h, so interleavings inside a call are those the OS produces, widened by bounded random delays at the macro-injected schedule points; the two index CAS of the MPMC queue (default memory order) have none. "Asleep" is the photon thread state SLEEPING at two inspections 10 ms apart, well below the 100 ms periodic re-check of the channel; OS-thread producers are never reported asleep. Two behaviours of the code as it is lie outside what C07 states and are only recorded (evidence key as_is_behaviours_outside_C07, thorough tier): (a) MPMC push() returns false on a queue that holds nothing unread when `capacity` fetch_add recv() callers are ahead of tail and the slot at tail is still being read, because check_full compares the indices modulo the capacity (reproduced on the real code by h_ring --prim prfull; histories that mix push() with recv() are judged without a rule for refused pushes); (b) an MPMC queue with capacity >= 4 stops working when the 64-bit index wraps (the mark word and the index word wrap at different turns), which needs 2^64 operations (h_ring --prim wrap --wrap4, VERIF_C07_WRAP4=1). send<PhotonPause> / recv<PhotonPause> of the raw MPMC queue yield while holding a claimed ticket, so a non-yielding push() / pop() of another photon thread on the same vCPU can spin forever; the harness drives mixed styles with OS threads only.',
    technique='TLA+ protocol models at atomic-operation granularity checked exhaustively by TLC (with liveness on the small configurations and broken variants as witnesses); TLC trace validation (linearizability against an abstract bounded FIFO, Settle / Quiesce observations) of executions recorded from the real templates with macro-injected schedule points and gated directed scenarios',
    design='3/C07')

Q = 'MC_RingQueues'
C = 'MC_RingChannel'
# (module, cfg, timeout) - ordered by cost, the expensive ones first (they overlap with the cheap ones)
MC_QUICK = [(C, 'MC_RingChannel_q12.cfg', 900), (Q, 'MC_RingQueues_mpmc_wrap21.cfg', 900), (C, 'MC_RingChannel_q21.cfg', 900),
            (Q, 'MC_RingQueues_mpmc_pp1.cfg', 900), (Q, 'MC_RingQueues_mpmc_wrap.cfg', 900), (C, 'MC_RingChannel_small.cfg', 900),
            (Q, 'MC_RingQueues_spsc.cfg', 900), (Q, 'MC_RingQueues_batch21.cfg', 900), (Q, 'MC_RingQueues_batch_wrap.cfg', 900),
            (Q, 'MC_RingQueues_mpmc_sr21.cfg', 900)]
MC_THOROUGH = [
    (Q, 'MC_RingQueues_mpmc_pp.cfg', 3400), (C, 'MC_RingChannel_mid_notimeout.cfg', 3400), (C, 'MC_RingChannel_os.cfg', 3400),
    (Q, 'MC_RingQueues_mpmc_mix.cfg', 3400), (C, 'MC_RingChannel_full_notimeout.cfg', 3400), (Q, 'MC_RingQueues_batch2.cfg', 3400),
    (Q, 'MC_RingQueues_mpmc_wrap12.cfg', 1800), (Q, 'MC_RingQueues_batch_cap4.cfg', 1800), (C, 'MC_RingChannel_full.cfg', 1800),
    (Q, 'MC_RingQueues_mpmc_cap4.cfg', 900), (Q, 'MC_RingQueues_mpmc_sr.cfg', 900), (Q, 'MC_RingQueues_batch_cap4w.cfg', 900),
    (Q, 'MC_RingQueues_mpmc_wrapsr.cfg', 900), (Q, 'MC_RingQueues_spsc_cap4.cfg', 900)] + MC_QUICK
# the full 2 x 2 x 2 channel population (31.5 million states each, ~25 CPU minutes each) and the 2 x 2 channel with 2+1 calls with
# time-outs (same reachable states as mid_notimeout): VERIF_C07_BIG=1
MC_BIG = [(C, 'MC_RingChannel_big_timed.cfg', 7200), (C, 'MC_RingChannel_big_notimeout.cfg', 7200), (C, 'MC_RingChannel_mid.cfg', 3400)]
# broken variants: (module, cfg, invariant that must be violated)
BROKEN = [(Q, 'MC_RingQueues_mpmc_broken.cfg', 'NoTornSlot'), (Q, 'MC_RingQueues_batch_broken.cfg', 'NoTornSlot'),
          (Q, 'MC_RingQueues_spsc_broken.cfg', 'NoTornSlot'),
          (C, 'MC_RingChannel_broken_idler.cfg', 'NotStuckNonEmpty'), (C, 'MC_RingChannel_broken_waiters.cfg', 'NotStuckNonFull')]
# behaviours of the code AS IT IS that lie outside what C07 states (see META.note); kept as witnesses, run in the thorough tier and
# recorded in the evidence, never a violation: (cfg, what TLC reports, text)
WITNESS = [('MC_RingQueues_kf_wrap4.cfg', 'Terminates',
            'MPMC queue, capacity >= 4: after the 64-bit index wraps the slot marks never match again (mark word and index word wrap at different turns): push spins forever; needs 2^64 operations'),
           ('MC_RingQueues_kf_pushfull.cfg', 'FailJustified',
            'MPMC queue: push() returns false on a queue that holds nothing unread when `capacity` fetch_add recv() callers are ahead of tail and the slot at tail is still being read (check_full compares the indices modulo the capacity)')]
SPEC, CFG = 'Trace_RingA', 'Trace_RingA.cfg'
MODES_Q = [('mpmc', 120), ('batch', 80), ('spsc', 60), ('chan', 140), ('wrap', 60), ('prfull', 6)]
MODES_T = [('mpmc', 800), ('batch', 450), ('spsc', 300), ('chan', 700), ('wrap', 300), ('prfull', 20)]


def _tamper(execs):
    """anti-vacuity of the trace specification: a recorded execution in which one pop returns a value a second time"""
    for e in execs:
        seen = []
        for i, r in enumerate(e):
            if r['e'] == 'Resp' and r.get('vals'):
                if seen:
                    bad = [dict(x) for x in e]
                    bad[i] = dict(r, vals=[seen[0]] + list(r['vals'][1:]))
                    return bad
                seen += r['vals']
    return None


def _mc_parallel(ctx, runs, broken, par=4, workers=4):
    """model checking of all configurations, `par` TLC processes at a time.  A violated property of a passing configuration is a
    violation of C07 in the specification; a broken variant that is not caught makes the check fail as vacuous."""
    from concurrent.futures import ThreadPoolExecutor
    jobs = [(m, c, t, None) for m, c, t in runs] + [(m, c, 900, inv) for m, c, inv in broken]
    # largest first, so that the long runs overlap with the short ones
    def work(j):
        m, c, t, inv = j
        return j, ctx.mc(m, c, timeout=t, workers=workers, count=False)
    ok, caught = True, {}
    with ThreadPoolExecutor(max_workers=par) as ex:
        for (m, c, t, inv), r in ex.map(work, jobs):
            if inv is None:
                ctx.states += r['distinct']
                ctx.transitions += r['generated']
                if r['rc'] != 0:
                    rp = ctx.save_replay(f'mc_{c}.txt', r['out'][-8000:])
                    ctx.violation(f'specification {m}/{c} violates {r["inv_violated"] or ("deadlock" if r["deadlock"] else "a property")}', rp)
                    ok = False
            else:
                caught[c] = r['inv_violated']
                if inv not in r['inv_violated']:
                    raise vtlib.InfraError(f'{m}/{c}: the broken variant is not detected ({r["inv_violated"]}): vacuous model')
    ctx.extra['broken_variants_caught'] = caught
    return ok


def run(ctx):
    quick = ctx.tier == 'quick'
    ctx.samples.append({'constants_queues': open(f'{vtlib.SPEC}/MC_RingQueues_mpmc_pp.cfg').read(),
                        'constants_channel': open(f'{vtlib.SPEC}/MC_RingChannel_q12.cfg').read()})
    if not os.environ.get('VERIF_SKIP_MC'):
        broken = BROKEN[:1] + BROKEN[3:4] if quick else BROKEN
        runs = (MC_QUICK if quick else MC_THOROUGH) + (MC_BIG if os.environ.get('VERIF_C07_BIG') else [])
        if not _mc_parallel(ctx, runs, broken):
            return ctx.finish()
        if not quick:
            wit = {}
            for cfg, what, text in WITNESS:
                r = ctx.tlc(Q, cfg, workers=4, timeout=900)
                seen = r['inv_violated'] + (['Terminates'] if 'Temporal property Terminates was violated' in r['out'] or r['prop_violated'] else [])
                if r['timeout'] or (r['rc'] not in (0, 12, 13)):
                    raise vtlib.InfraError(f'TLC failed on {Q}/{cfg} rc={r["rc"]} (see {r["log"]})')
                wit[cfg] = {'expected': what, 'reported': seen, 'still_shown': what in seen, 'what': text}
            ctx.extra['as_is_behaviours_outside_C07'] = wit
    ctx.build_lib()
    h = ctx.build_harness('h_ring')
    if os.environ.get('VERIF_C07_HARNESS'):      # mutation experiments: a harness binary compiled against a mutated copy of the header
        h = os.environ['VERIF_C07_HARNESS']
    modes = MODES_Q if quick else MODES_T
    seeds = [ctx.seed] if quick else [ctx.seed, ctx.seed + 1000]
    kinds, styles, settles, tampered, allrows = {}, {}, 0, None, []
    for prim, execs in modes:
        for si, sd in enumerate(seeds):
            n = execs // len(seeds)
            trace = f'{ctx.out}/{prim}_{sd}.ndjson'
            rc, o, e = ctx.run_harness(h, ['--prim', prim, '--execs', n, '--seed', sd, '--vcpus', 3, '--threads', 4, '--ops', 8,
                                           '--out', trace], timeout=1500, ok_rcs=(0, 3, 4))
            if rc == 124:
                raise vtlib.InfraError(f'h_ring --prim {prim} timed out')
            rows = vtlib.read_ndjson(trace)
            if not rows:
                raise vtlib.InfraError(f'h_ring --prim {prim} recorded nothing')
            for r in rows:
                if r['e'] == 'Reset':
                    r['seed'] = sd
                    k = f'{r["kind"]}/{r["style"]}/cap{r["cap"]}' + ('/flex' if r['flex'] else '') + ('/os' if r['os'] else '/photon')
                    styles[k] = styles.get(k, 0) + 1
                elif r['e'] in ('Inv', 'Resp'):
                    k = r['e'] + ':' + r['op'] + (':refused' if r['e'] == 'Resp' and (r.get('k') == 0 or r.get('vals') == []) else '')
                    kinds[k] = kinds.get(k, 0) + 1
                else:
                    kinds[r['e']] = kinds.get(r['e'], 0) + 1
                    settles += r['e'] == 'Settle'
            allrows += rows
            ex = tracecheck.split_execs(rows)
            if len(ctx.samples) < 5 and si == 0:
                ctx.samples.append({'mode': prim, 'recorded_execution': ex[min(2, len(ex) - 1)][:40]})
            if tampered is None and prim == 'mpmc':
                tampered = _tamper(ex)
    # all recorded executions are judged in one parallel pass (an execution is self-contained: it starts with its Reset)
    acc, rejs, n_exec = tracecheck.validate(ctx, SPEC, CFG, allrows, tagbase='ring', chunk_events=6000, par=8, max_rej=4)
    for rj in rejs:
        rs = rj['exec'][0]
        tracecheck.report(ctx, [rj], f'h_ring --prim {rs.get("prim")} --seed {rs.get("seed")} execution {rs.get("ex")} ({rs.get("kind")}/{rs.get("style")} cap {rs.get("cap")})',
                          name=f'ring_{rs.get("prim")}_{rs.get("seed")}_{rs.get("ex")}')
    ctx.extra['executions_recorded'] = n_exec
    ctx.extra['event_kinds'] = kinds
    ctx.extra['configurations_exercised'] = styles
    ctx.extra['settle_observations'] = settles
    # the trace specification must reject a history in which a value is returned twice, and Settle must have been exercised
    if tampered:
        acc, rejs, n = tracecheck.validate(synccheck._Quiet(ctx), SPEC, CFG, tampered, tagbase='ring_tampered')
        ctx.extra['tampered_history_rejected'] = bool(rejs)
        if not rejs:
            raise vtlib.InfraError('Trace_RingA accepts a history that returns a value twice (vacuous trace specification)')
    if not settles and not ctx.violations:
        raise vtlib.InfraError('no Settle observation was recorded in any channel execution (the lost-wake-up clause was not exercised)')
    ob = [r for r in allrows if r['e'] == 'Observed']
    ctx.extra['push_refused_on_empty_queue_scenario'] = {'staged': sum(1 for r in ob if r['staged']), 'refused': sum(1 for r in ob if r['refused'])}
    gt = [r for r in allrows if r['e'] == 'Gate']
    ctx.extra['gated_scenarios'] = {'run': len(gt), 'gate_reached': sum(1 for r in gt if r['reached'] and not r['dropped'])}
    if os.environ.get('VERIF_C07_WRAP4'):
        # documented, not judged: MPMC capacity 4 started right below the wrap of the 64-bit index (see META.note)
        trace = f'{ctx.out}/wrap4.ndjson'
        rc, o, e = vtlib.sh([h, '--prim', 'wrap', '--wrap4', '--execs', '3', '--seed', str(ctx.seed), '--out', trace], timeout=200)
        rows = vtlib.read_ndjson(trace) if os.path.exists(trace) else []
        ctx.extra['wrap4_scenario'] = {'rc': rc, 'hang': any(r['e'] == 'Hang' for r in rows)}
        print(f'INFO property=C07 wrap4 scenario (MPMC capacity 4 across the 2^64 index wrap): rc={rc} hang={ctx.extra["wrap4_scenario"]["hang"]}')
    ctx.assumptions = ['sequential consistency in both specifications (memory orders / fences are not modelled)',
                       'the OS / photon scheduler picks the interleavings that are sampled; no trace points inside lockfree_queue.h',
                       'semaphore, thread_yield and timers behave as C02 / C04 establish']
    return ctx.finish()


def replay(ctx, path):
    return synccheck.replay(ctx, SPEC, CFG, path)
