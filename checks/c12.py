"""C12 RPC serialization: RpcSerialize.tla (step machine of DeserializerIOV over every message / partition / hostile
wire-word assignment in a small scope, checked against RoundTrip, HostileContained, ChecksumRejects) +
h_serialize (real SerializerIOV / DeserializerIOV on 12 message types, same scope + seeded random larger
instances, ASan/UBSan, every case in a forked child) judged by Trace_RpcSerialize.tla.

Known findings: a recorded case that the property configuration rejects is re-judged with exactly one KF_ deviation
of the specification enabled (Trace_RpcSerialize_KF_<name>.cfg, Classify = TRUE: quiet iff the real code did exactly
what the specification with that deviation does).  Only then is it a KNOWN-FINDING; anything else is a VIOLATION."""
import json, os, re
from concurrent.futures import ThreadPoolExecutor
import vtlib
from checks import datacheck

META = dict(
   text='TLC exhausts the transcribed DeserializerIOV (body from the back, checksum, aligned pass, other pass, one claim per '
        'step: pointer / copy / short) for every message of 1 field from the field kinds (buffer, aligned_buffer, string, '
        'array, fixed_buffer, iovec_array, aligned_iovec_array, embedded message, array of messages, sorted_map; lengths 0..2; '
        'checked and unchecked) and every pair over a representative subset (thorough: every pair over 36 options, triples over '
        '9), every partition of the serialized bytes into <= 3 iovec elements at every cut position (empty elements included), '
        'every hostile value {0,1,rem-1,rem,rem+1,MAX} of one (thorough: two) wire words on <= 2 elements, every hostile '
        '(offset,length) in {0,1,B-1,B,B+1,MAX,-1}x{0,1,B-1,B,B+1,MAX} of one map slice, every altered byte position and inputs '
        'shorter than the body: RoundTrip (positions and byte ids), HostileContained, ChecksumRejects, NoCrash, step machine = '
        'functional version; each of the 5 known deviations (KF_ switches = the code as shipped) is a TLC counterexample. The real '
        'SerializerIOV/DeserializerIOV are executed (ASan+UBSan) on 12 message types M<checked?,A,B,C> built from the same kinds '
        'over lengths {0,2} (thorough 0..3), every cut position of the variable part (+ representative ones in the body) into <= 3 '
        'elements, hostile words (singles, pairs; thorough triples) / slices / missing tails with a checksum made by the '
        'library\'s own add_checksum, altered bytes of checked messages, plus 150 (thorough 1500) seeded random instances per type '
        'up to 200 (1500) bytes per field in up to 6 elements; after a successful deserialization every byte of every field is read, '
        'every map entry iterated and every key looked up. Each recorded case (outcome; per field: offset in the supplied input | '
        'copy and where its bytes occur | empty | null | wild, length; map entries; fixed fields) is judged by the reference '
        'operators and compared with the transcription in a trace specification.',
   note='TLC result holds for the stated scope (abstract sizes: body / element / T / index entry = 2 bytes); larger instances only '
        'through seeded random cases. Memory safety is decided on extents (what the deserializer hands out) plus sanitizer '
        'reports while those extents are read and the map is used; an access that neither shows in an extent nor trips ASan is '
        'missed. -fsanitize=null, alignment, pointer-overflow are off (unaligned body, reference-to-null binding and null+offset '
        'arithmetic happen by design / on the failure path and are not accesses). The harness is compiled -O2 -DNDEBUG like the '
        'shipped library: at -O0/-O1 the empty element loop of array<T> after a failed claim spins over wire_length/sizeof(T) '
        'iterations. string::sv()/c_str() of a received zero-length string (pointer is whatever the sender wrote) is outside the '
        'statement and not exercised on plain fields; sorted_map::find() returning the lower bound for an absent key is not judged. '
        'Words of array<Message> elements are hostile only where the array is claimed from its honest position.',
   technique='TLA+ transcription + TLC exhaustive small-scope check of RoundTrip/HostileContained/ChecksumRejects; trace '
             'validation of real outputs (TLC) per case; known findings classified by re-validation with one KF_ switch',
   design='3/C12')

# name of the KF_ switch, finding id, what fails
KFS = [
 # F8 (MapSlices), F23 (FixedLen), F24 (NestedAligned), F25 (ArrayWalk) were repaired by fix: commits in /repo (see known-findings.json);
 # their KF_ switches stay in the specification (FALSE everywhere) as documentation of the pre-repair behaviour.
 ('Checksum', 'F26', 'CheckedMessage: the checksum member is itself the running hash while the body is hashed, which cancels '
                     'everything hashed before it: altered bytes in the variable-length part are accepted'),
]

def _mismatches_of(ctx, cfg, rows, tag, chunk=None, par=8):
    """validate rows with Trace_RpcSerialize under cfg; returns {row index: text}"""
    if chunk is None:
        chunk = max(500, min(4000, -(-len(rows) // par)))
    chunks = []
    for n, start in enumerate(range(0, len(rows), chunk)):
        p = f'{ctx.out}/{tag}.{n}.ndjson'
        vtlib.write_ndjson(p, rows[start:start + chunk])
        chunks.append((n, start, p))
    def work(c):
        n, start, p = c
        return c, ctx.trace_check('Trace_RpcSerialize', cfg, p, timeout=1500, deque=False, xmx='3g', tag=f'{tag}_{n}')
    with ThreadPoolExecutor(max_workers=par) as ex:
        results = list(ex.map(work, chunks))
    mm = {}
    for (n, start, p), r in results:
        nrows = min(chunk, len(rows) - start)
        if not r['accepted']:
            raise vtlib.InfraError(f'Trace_RpcSerialize/{cfg}: trace not consumed to the end (depth {r["depth"]}/{nrows}), see {r["log"]}')
        for ln, text in datacheck.mismatches(r['out']).items():
            mm[start + ln - 1] = text
        os.unlink(p)
    return mm

FATAL_DEFAULTS = {'id': -1, 'shape': '?', 'mode': 'hostile', 'ck': False, 'S': 1, 'N': 0, 'sch': [], 'W': [], 'SL': [], 'part': [], 'alt': -1,
                  'sig': 0, 'stage': 'terminate', 'fwi': 0, 'asan': 'uncaught exception'}

def _load(path):
    """one row per line; a line that is not JSON (garbled by a wild write of the code under test) becomes a Fatal row"""
    rows = []
    with open(path, errors='replace') as f:
        for line in f:
            line = line.strip()
            if not line:
                continue
            try:
                r = json.loads(line)
                if r.get('e') == 'Fatal':    # (vt.h's own terminate handler writes a bare Fatal line: uncaught C++ exception)
                    for k, v in FATAL_DEFAULTS.items():
                        r.setdefault(k, v)
                rows.append(r)
            except ValueError:
                m = re.search(r'"id":(\d+)', line)
                rows.append({'e': 'Fatal', 'id': int(m.group(1)) if m else -1, 'shape': '?', 'mode': 'hostile', 'ck': False, 'S': 1, 'N': 0,
                             'sch': [], 'W': [], 'SL': [], 'part': [], 'alt': -1, 'sig': 0, 'stage': 'garbled', 'fwi': 0,
                             'asan': 'line garbled by a wild write'})
    return rows

def judge(ctx, rows, what='case'):
    mm = _mismatches_of(ctx, 'Trace_RpcSerialize.cfg', rows, 'trace')
    ctx.traces_ok += len(rows) - len(mm)
    left = sorted(mm)
    explained = {}
    listed = {f.get('id') for f in ctx.kf.get('open', []) if f.get('property') == 'C12'}
    global KFS
    KFS = [k for k in KFS if k[1] in listed]      # a deviation is tolerated only while it is listed open in known-findings.json
    if left and KFS and not os.environ.get('C12_NO_KF'):
        # re-judge the rejected cases with each single deviation (and, last resort, all of them) enabled
        sub = [rows[i] for i in left]
        # 'all' = every OPEN deviation at once (Trace_RpcSerialize_KF_all.cfg must enable only switches of findings that
        # are still open: a repaired finding suppresses nothing); it adds nothing while fewer than two are open
        names = [k[0] for k in KFS] + (['all'] if len(KFS) >= 2 else [])
        with ThreadPoolExecutor(max_workers=6) as ex:
            res = list(ex.map(lambda nm: _mismatches_of(ctx, f'Trace_RpcSerialize_KF_{nm}.cfg', sub, f'kf_{nm}', chunk=max(6000, -(-len(sub) // 2)), par=2), names))
        quiet = {nm: {left[k] for k in range(len(left)) if k not in m2} for nm, m2 in zip(names, res)}
        for name, fid, text in KFS:
            ok = sorted(i for i in quiet[name] if i not in explained)
            for i in ok:
                explained[i] = fid
            if ok:
                rp = ctx.save_replay(f'known_{fid}.ndjson', json.dumps(rows[ok[0]]) + '\n')
                ctx.known(fid, f'{text} [{len(ok)} recorded cases, e.g. {rp}: {mm[ok[0]][:160]}]')
        ok = sorted(i for i in quiet.get('all', ()) if i not in explained)
        for i in ok:
            explained[i] = 'combination'
        if ok:   # only the combination of the known deviations explains these (two findings meet in one case)
            ctx.known('F26+', f'several of the findings above meet in one case [{len(ok)} recorded cases, e.g. id {rows[ok[0]].get("id")}]')
    for i in [i for i in left if i not in explained]:
        row = rows[i]
        if len(ctx.violations) < 5:
            rp = ctx.save_replay(f'Trace_RpcSerialize_{row.get("id", i)}.ndjson', json.dumps(row) + '\n')
            ctx.violation(f'{what} {json.dumps(row)[:400]} :: {mm[i]}', rp)
        else:
            ctx.violations.append((mm[i], ''))
    return mm, explained

def run(ctx):
    t = ctx.tier
    pool = ThreadPoolExecutor(max_workers=8)
    # 1. the design: every invariant holds on the specification without deviations ...
    f_mc = pool.submit(lambda: ctx.mc('MC_RpcSerialize', f'MC_RpcSerialize_{t}.cfg', timeout=3000, workers=12))
    # ... and each known deviation (the code as shipped) is a TLC counterexample (keeps the KF_ switches honest)
    f_kf = [(k, pool.submit(lambda k=k: ctx.mc('MC_RpcSerialize', f'MC_RpcSerialize_KF_{k[0]}.cfg', count=False, workers=2, xmx='3g', timeout=900)))
            for k in KFS]
    # 2. the real code (meanwhile)
    def real():
        # self-test hooks (docs/BUILDING_A_CHECK.md "show that the check binds"): a harness binary built against a scratch copy
        # of rpc/serialize.h, and judging without the known-finding classification
        h = os.environ.get('C12_HARNESS') or ctx.build_harness('h_serialize')
        trace = f'{ctx.out}/serialize.ndjson'
        rc, o, e = ctx.run_harness(h, ['--out', trace, '--seed', ctx.seed, '--tier', t], timeout=2400, ok_rcs=(0,))
        if rc == 124:
            raise vtlib.InfraError('h_serialize timed out')
        rows = _load(trace)
        if not rows:
            raise vtlib.InfraError('h_serialize wrote no cases: ' + o[-500:])
        return o, rows
    f_real = pool.submit(real)
    for f in [f_mc]:
        r = f.result()
        if r['inv_violated'] or r['rc'] != 0:
            rp = ctx.save_replay('mc_counterexample.txt', r['out'][-8000:])
            ctx.violation(f'specification RpcSerialize ({r["cfg"]}) violates {r["inv_violated"]}', rp)
            return ctx.finish()
    for (name, fid, text), f in f_kf:
        rk = f.result()
        if not rk['inv_violated']:
            raise vtlib.InfraError(f'MC_RpcSerialize_KF_{name}.cfg is expected to violate an invariant (deviation {name} has no effect?) see {rk["log"]}')
    o, rows = f_real.result()
    mm, explained = judge(ctx, rows)
    by = {}
    for row in rows:
        k = f'{row.get("mode")}/{row["e"]}'
        by[k] = by.get(k, 0) + 1
    kfc = {}
    for i, fid in explained.items():
        kfc[fid] = kfc.get(fid, 0) + 1
    cases = [x for x in rows if x['e'] == 'Case']
    ctx.samples = [{'constants': open(f'{vtlib.SPEC}/MC_RpcSerialize_{t}.cfg').read()}, cases[3], cases[len(cases) // 2], cases[-1]]
    ctx.extra.update({'cases_executed_on_real_code': len(rows), 'cases_agreeing_with_reference': len(rows) - len(mm),
                      'cases_by_mode': by, 'cases_explained_by_known_finding': kfc, 'harness': o.strip()[-200:],
                      'shapes': sorted({x['shape'] for x in rows}), 'exhaustive': True,
                      'explanation': 'states = process_field steps of every (message, partition, hostile assignment, altered byte) in scope; '
                                     'traces = cases executed on the real serializer/deserializer and judged by the reference'})
    ctx.assumptions = ['a receiver reads a field as [pointer, pointer+length) and a fixed_buffer<T> as one T; string::sv()/c_str() on plain fields is not exercised',
                       'words of array<Message> elements and map slices are hostile only where the array / index is claimed from its honest position (otherwise only containment and sanitizer reports are judged)',
                       'harness built with -O2 -DNDEBUG like the shipped library; sanitizer checks null, alignment, pointer-overflow disabled (no memory access involved)']
    return ctx.finish()

def replay(ctx, path):
    judge(ctx, _load(path))
    seen = set()
    for fid, what in ctx.known_hits:
        if fid not in seen:
            seen.add(fid)
            print(f'KNOWN-FINDING: property={ctx.pid} {fid}: {what}', flush=True)
    return 1 if ctx.violations else 0
