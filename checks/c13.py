"""C13 HTTP/1.1 framing: HttpFraming.tla (transcribed receive loop, header index, body readers and writers vs. the
reference grammar, every fragmentation of a small scope) + h_http (real Request/Response/body streams over a
fragmenting socket, same scope + malformed + seeded random + large messages) judged by Trace_HttpFraming.tla."""
import json, os, re, time
from concurrent.futures import ThreadPoolExecutor
import vtlib

META = dict(
   text='TLC explores a step machine transcribed from net/http (append_bytes terminator search across recv boundaries, start-line and header parse, header index sorted as libstdc++ sorts it and searched case-insensitively, body_size framing decision, BodyReadStream, ChunkedBodyReadStream line buffer / cursor / chunk_remain, BodyWriteStream clipping, ChunkedBodyWriteStream) for every message of a small scope (whole requests / responses with Content-Length, chunked, close-delimited, HTTP/1.0, HEAD; chunked bodies with chunk sizes {1,2,3,10,16,17}, at most 2 chunks; messages followed by the next message; bodies written by the transcribed writers) x every single cut position (thorough: every set of <=2 cuts, <=3 for the short messages) + one byte per recv x read sizes {1,2,5,inf}, and checks against a reference grammar written in TLA+ (ParseHead, Framing, Payload): FragmentationIndependent, BodyExactThenEOF, WriterReaderRoundTrip; a second scope of every short string over small alphabets (header blocks, start lines, chunked bodies) and every truncation, with two values of the stale byte behind the data, checks MalformedTerminates and InBounds. The real Request/Response::receive_header, body read streams and write streams are then run under a fragmenting ISocketStream: the same messages x every set of <=2 (thorough <=3) cuts x read sizes {1,2,5,inf}, chunk sizes {0,1,2,3,10,16,17} with <=2 chunks, writers with pieces {0,1,2,3,10,16,17}, short strings / truncations / single-byte mutations as malformed input, seeded random messages with random fragmentations and read-size patterns, and large messages near the limits of the 64 KB buffer; every distinct outcome (parsed fields as buffer offsets, header index and look-ups, body bytes, read return codes, socket-call count) is judged by TLC against the reference operators; cases are repeated with different stale buffer content behind the received bytes and with a buffer without NUL bytes that ends at an inaccessible page.',
   note='TLC result holds for the stated scopes; longer messages only through the seeded random and large cases. The valid grammar is narrow on purpose (exact "chunked"/"close"/"keep-alive" tokens, no Trailer / Content-Range, no obs-fold); anything else is only required to end with error/EOF inside the buffers. Accesses outside the received bytes are seen only when they change the outcome or run off the end of the buffer (no sanitizer build of the library).',
   technique='TLA+ transcription + TLC exhaustive small-scope equivalence with reference grammar; trace validation of real outcomes (TLC) per distinct outcome; known deviations as KF switches of the transcription used to classify rejections',
   design='3/C13')

KFS = {  # switches of the transcription (HttpFramingOps.tla, constant KF) -> what it is
   'verbStrlen': 'Request::parse_request_line converts m_buf with strlen() (message.cpp:369): reads the receive buffer beyond the received bytes up to the first NUL, beyond its end when there is none',
   'staleHeaderRead': 'HeadersBase::parse reads p[0] at the end of the received bytes (headers.cpp:175): a header line without colon is accepted or refused depending on the stale byte behind the data',
   'zeroWrite': 'ChunkedBodyWriteStream::write(buf, 0) emits the last-chunk (body.cpp:306): a zero-length write ends the body, later data is lost for the reader',
   'headChunked': 'Message::prepare_body_read_stream takes the chunked reader for the response to a HEAD request that carries Transfer-Encoding: chunked (message.cpp:231): the absent body is read as chunks (error at end of stream, or bytes of the next message)',
   'icmpYZ': "stricmp_fast lowers only 'A'..'X' in its 8-byte path (estring.cpp:183): header names of 8+ bytes containing Y/Z are not found case-insensitively",
}
PARTS = ['msg', 'body', 'writer', 'mal', 'random', 'big']
CLASSIFY_MAX = 3000


def _open_kf(ctx, kf):
    for e in ctx.kf.get('open', []):
        if e.get('property') != 'C13':
            continue
        if e.get('signature') == kf or e.get('kf') == kf or ('KF=' + kf) in e.get('line', ''):
            return e
    return None


def _groups(rows):
    """split a trace into groups that start with an M line (L lines are groups of their own); End lines dropped"""
    gs, cur = [], []
    for r in rows:
        if r.get('e') == 'End':
            continue
        if r.get('e') in ('M', 'L', 'Fatal'):
            if cur:
                gs.append(cur)
            cur = [r]
        else:
            cur.append(r)
    if cur:
        gs.append(cur)
    return gs


def _judge(ctx, rows, tag, mode='property', kf='', par=14, chunk=2500, timeout=1500):
    """returns (list of (group, row, text), number of rows judged)"""
    gs = _groups(rows)
    chunks, cur, n = [], [], 0
    for g in gs:
        if cur and n + len(g) > chunk:
            chunks.append(cur); cur, n = [], 0
        cur.append(g); n += len(g)
    if cur:
        chunks.append(cur)

    def work(ic):
        i, c = ic
        flat = [r for g in c for r in g]
        owner = [g for g in c for _ in g]
        p = f'{ctx.out}/{tag}.{mode}.{kf or "none"}.{i}.ndjson'
        vtlib.write_ndjson(p, flat)
        r = ctx.trace_check('Trace_HttpFraming', 'Trace_HttpFraming.cfg', p, timeout=timeout, deque=False, xmx='2g',
                            extra_env={'MODE': mode, 'KF': kf.split('+')[0], 'KF2': (kf.split('+') + [''])[1], 'JAVA_TOOL_OPTIONS': '-Xss256m'}, tag=f'trace_{tag}_{mode}_{kf or "none"}_{i}')
        if not r['accepted']:
            raise vtlib.InfraError(f'Trace_HttpFraming: trace not consumed to the end ({tag} chunk {i}, depth {r["depth"]}/{len(flat)}), see {r["log"]}')
        mm = {}
        for m in re.finditer(r'^"MISMATCH (\d+) (.*)"$', r['out'], re.M):
            mm[int(m.group(1))] = m.group(2).replace('\\"', '"')
        os.unlink(p)
        return [(owner[ln - 1], flat[ln - 1], mm[ln]) for ln in sorted(mm)], len(flat)
    out, total = [], 0
    with ThreadPoolExecutor(max_workers=par) as ex:
        for res, n in ex.map(work, list(enumerate(chunks))):
            out += res; total += n
    return out, total


def _cases(rows):
    n = 0
    for r in rows:
        if r.get('e') == 'O':
            n += r['n']
        elif r.get('e') == 'L':
            n += sum(o['n'] for o in r['outs'])
    return n


def _classify(ctx, mism, tag):
    """mism: list of (group, row, text) rejected in property mode.  Re-validates the rejected O/D lines in explain mode with
    no deviation, with each single KF deviation and (for what is still unexplained) with each pair.  A line is attributed to
    the deviation set that reproduces it if that set is unique among the sets of its size and the empty set does not.
    Returns list of (group, row, text, 'kf' | 'kf1+kf2' | None)."""
    cand = [(g, r, t) for g, r, t in mism if r.get('e') in ('O', 'D')]
    rest = [(g, r, t, None) for g, r, t in mism if r.get('e') not in ('O', 'D')]
    if not cand:
        return rest
    key = lambda g, r: json.dumps([g[0], r], sort_keys=True)
    if len(cand) > CLASSIFY_MAX:
        # far more rejections than the known deviations produce (the harness caps those): explain a sample that covers every
        # distinct complaint; what is not explained stays a violation, so the cap can only add violations, never hide one
        by = {}
        for c in cand:
            by.setdefault(c[2], []).append(c)
        pick, i = [], 0
        while len(pick) < CLASSIFY_MAX:
            for lst in by.values():
                if i < len(lst) and len(pick) < CLASSIFY_MAX:
                    pick.append(lst[i])
            i += 1
        keep = {key(g, r) for g, r, t in pick}
        rest += [(g, r, t, None) for g, r, t in cand if key(g, r) not in keep]
        cand = pick

    def explain(items, kfs):
        rows = []
        for g, r, t in items:
            rows += [g[0], r]
        def one(kf):
            bad, _ = _judge(ctx, rows, f'{tag}_explain', mode='explain', kf=kf, par=3)
            badkeys = {key(g, r) for g, r, _ in bad}
            return kf, {key(g, r) for g, r, t in items} - badkeys
        with ThreadPoolExecutor(max_workers=5) as ex:
            return dict(ex.map(one, kfs))
    singles = explain(cand, [''] + list(KFS))
    verdict = {}
    for g, r, t in cand:
        k = key(g, r)
        ks = [kf for kf, okset in singles.items() if k in okset]
        verdict[k] = ks[0] if len(ks) == 1 and ks[0] != '' else None
        if '' in ks:
            verdict[k] = ''          # the transcription without deviations predicts this outcome: not a known deviation
    left = [(g, r, t) for g, r, t in cand if verdict[key(g, r)] is None and not any(key(g, r) in okset for okset in singles.values())]
    if left and len(left) <= 300:
        names = list(KFS)
        pairs = explain(left, [f'{a}+{b}' for i, a in enumerate(names) for b in names[i + 1:]])
        for g, r, t in left:
            ks = [kf for kf, okset in pairs.items() if key(g, r) in okset]
            if len(ks) == 1:
                verdict[key(g, r)] = ks[0]
    return [(g, r, t, verdict[key(g, r)] or None) for g, r, t in cand] + rest


def _report(ctx, classified):
    """one VIOLATION per distinct cause (at most 5 printed); known findings are recorded with ctx.known"""
    seen = {}
    for g, r, t, kf in classified:
        es = [(k, _open_kf(ctx, k)) for k in kf.split('+')] if kf else []
        if es and all(e for k, e in es):
            for k, e in es:
                ctx.known(e.get('id', k), f'{KFS[k]} (KF={k})')
            continue
        cause = f'KF={kf}' if kf else t
        if cause in seen:
            seen[cause][0] += 1
            ctx.violations.append((t, ''))
            continue
        rp = ctx.save_replay(f'c13_{len(seen)}.ndjson', ''.join(json.dumps(x) + '\n' for x in ([g[0], r] if r is not g[0] else [r])))
        seen[cause] = [1, rp, g, r, t, kf]
    for i, (cause, (n, rp, g, r, t, kf)) in enumerate(seen.items()):
        m = g[0]
        what = f'{n} recorded outcome(s): {t} :: message kind={m.get("kind")} bytes={bytes(m.get("msg", [])[:120])!r}'
        if r.get('e') == 'O':
            what += f' cuts={r["ex"]} rs={r["rs"]} fill={r["fill"]} outcome={json.dumps(r["o"])[:200]}'
        elif r.get('e') == 'D' and 'a' in r:
            what += f' cuts={r["cuts"]} rs={r["rs"]} fill {r["fa"]} -> {json.dumps(r["a"])[:80]} but fill {r["fb"]} -> {json.dumps(r["b"])[:80]}'
        if kf:
            what += f' :: reproduced by the transcription only with the deviation KF={kf} ({"; ".join(KFS[k] for k in kf.split("+"))}); not listed in known-findings.json'
        if i < 5:
            ctx.violations.append((what, rp))
            print(f'VIOLATION property={ctx.pid} replay={rp}  # {what}', flush=True)
        else:
            ctx.violations.append((what, rp))


def run(ctx):
    t = ctx.tier
    T = {'start': time.time()}
    def lap(k):
        T[k] = round(time.time() - T['start'], 1)
    pool = ThreadPoolExecutor(max_workers=4)
    # ---- model checking (in the background while the library / harness are built and run)
    mcs = [('MC_HttpFraming', f'MC_HttpFraming_{t}.cfg', 7), ('MC_HttpFraming', f'MC_HttpFramingMal_{t}.cfg', 5)]
    if t == 'thorough':
        mcs.append(('MC_HttpFraming', 'MC_HttpFraming3_thorough.cfg', 5))
    futs = [pool.submit(ctx.tlc, m, c, workers=w, timeout=2400, xmx='8g') for m, c, w in mcs]
    # ---- the real code
    ctx.build_lib()
    h = ctx.build_harness('h_http')
    h = os.environ.get('C13_HARNESS') or h     # development hook: a harness linked against edited copies of the sources (mutation tests)
    def part(p):
        tr = f'{ctx.out}/http_{p}.ndjson'
        ctx.run_harness(h, ['--out', tr, '--seed', ctx.seed, '--tier', t, '--only', p], ok_rcs=(0, 3), timeout=1500)
        return p, vtlib.read_ndjson(tr)
    lap('built')
    with ThreadPoolExecutor(max_workers=6) as ex:
        traces = dict(ex.map(part, PARTS))
    lap('harness')
    allrows = [r for p in PARTS for r in traces[p]]
    mism, judged = _judge(ctx, allrows, 'all', par=12)
    cases = _cases(allrows)
    lap('judged')
    # ---- results of the model checking runs
    for (m, c, w), f in zip(mcs, futs):
        r = f.result()
        if r['timeout']:
            raise vtlib.InfraError(f'TLC timed out on {m}/{c} (see {r["log"]})')
        if r['error'] or (r['rc'] not in (0, 12, 13, 11, 10)):
            raise vtlib.InfraError(f'TLC failed on {m}/{c} rc={r["rc"]} (see {r["log"]})\n' + r['out'][-1500:])
        ctx.states += r['distinct']; ctx.transitions += r['generated']
        ctx.mc_runs.append({k: r[k] for k in ('module', 'cfg', 'generated', 'distinct', 'depth', 'wall_s', 'rc')})
        if r['inv_violated'] or r['rc'] != 0:
            rp = ctx.save_replay(f'mc_counterexample_{c}.txt', r['out'][-8000:])
            ctx.violation(f'specification HttpFraming ({c}) violates {r["inv_violated"]}: the transcribed code no longer meets the reference', rp)
    lap('mc')
    # ---- classify what the reference rejects
    classified = _classify(ctx, mism, 'cls') if mism else []
    _report(ctx, classified)
    vtlib.write_ndjson(f'{ctx.out}/rejected.ndjson', [dict(kf=kf, text=tx, m=g[0], row=r) for g, r, tx, kf in classified])
    rejected_cases = sum(r['n'] for g, r, tx, kf in classified if r.get('e') == 'O')
    ctx.traces_ok = cases - rejected_cases
    extra = {'cases_executed_on_real_code': cases, 'trace_lines_judged_by_TLC': judged,
             'lines_rejected': len(classified), 'rejected_by_deviation': {},
             'harness_parts': {p: next((r for r in traces[p] if r.get('e') == 'End'), {}) for p in PARTS}}
    for g, r, tx, kf in classified:
        extra['rejected_by_deviation'][kf or 'unexplained'] = extra['rejected_by_deviation'].get(kf or 'unexplained', 0) + 1
    lap('classified')
    # ---- the transcription follows the real code: the example case of every outcome of the valid scope is reproduced (KF = {})
    bad, n = _judge(ctx, traces['msg'] + traces['body'] + (traces['writer'] if t == 'thorough' else []), 'agree', mode='explain', kf='')
    K = lambda g, r: json.dumps([g[0], r], sort_keys=True)
    known = {K(g, r) for g, r, tx, kf in classified}
    left = [(g, r, tx) for g, r, tx in bad if K(g, r) not in known]
    if left:    # harmless manifestations of a known deviation (e.g. a trailing zero-length write) are reproduced with that deviation enabled
        rows2 = [x for g, r, tx in left for x in (g[0], r)]
        for kf in KFS:
            if not left:
                break
            bad2, _ = _judge(ctx, rows2, 'agree2', mode='explain', kf=kf, par=3)
            still = {K(g, r) for g, r, _ in bad2}
            left = [(g, r, tx) for g, r, tx in left if K(g, r) in still]
            rows2 = [x for g, r, tx in left for x in (g[0], r)]
    extra['transcription_vs_real_code'] = {'lines': n, 'not_reproduced_without_deviation': len(bad), 'not_reproduced_at_all': len(left)}
    if left:
        print(f'NOTE property={ctx.pid} {len(left)} recorded outcome(s) of the valid scope are not reproduced by the transcription '
              f'(the specification may lag behind the code): e.g. {K(*left[0][:2])[:300]}', flush=True)
    lap('agree')
    # ---- the KF switches still produce their counterexamples (documentation; thorough only)
    if t == 'thorough':
        doc = {}
        for kf in KFS:
            r = ctx.tlc('MC_HttpFraming', 'MC_HttpFraming_kf.cfg', workers=4, timeout=600, env={'KF': kf}, tag=f'kf_{kf}')
            doc[kf] = {'violates': r['inv_violated'], 'states': r['distinct']}
        extra['known_finding_switches'] = doc
    rows = traces['msg']
    ctx.samples = [{'constants': open(f'{vtlib.SPEC}/MC_HttpFraming_{t}.cfg').read()}, rows[0], rows[1], traces['body'][-3], traces['random'][1]]
    extra['explanation'] = ('states = receive/read steps of every (message, fragmentation, read size) in the TLC scopes; traces = cases '
                            '(message x fragmentation x read sizes x buffer fill) executed on the real code whose outcome TLC accepted; '
                            'cases are grouped by identical outcome before TLC judges them')
    extra['timing_s'] = T
    ctx.extra.update(extra)
    ctx.assumptions = ['valid grammar as in HttpFramingOps.tla Part 2 (narrow: exact tokens, unique framing headers, no trailers, no Content-Range)',
                       'a socket whose recv() returns at most one fragment; IStream::read of the socket reads fully unless the stream ends',
                       'messages are not pipelined (bytes behind a complete body are outside the scope)',
                       'buffer limits: a head is guaranteed to fit when head <= cap-4096-1024 and head-1+4096+8*headers (+4096 if chunked) < cap; beyond that only error-or-correct is demanded']
    return ctx.finish()


def replay(ctx, path):
    rows = vtlib.read_ndjson(path)
    mism, _ = _judge(ctx, rows, 'replay', par=2)
    _report(ctx, _classify(ctx, mism, 'replay_cls') if mism else [])
    if not ctx.violations:
        print(f'OK property={ctx.pid} replay accepted', flush=True)
    return 1 if ctx.violations else 0
