"""C20 sub-filesystem paths: SubFS.tla (level_valid step machine vs. lexical-containment reference, every
string over {/ . a b} up to length 8) + h_subfs (real new_subfs over a recording underlay, all operations)
judged by Trace_SubFS.tla."""
import vtlib
from checks import datacheck

META = dict(
   text='TLC exhausts the transcribed Path::level_valid scan (component iterator, level counter) against the lexical-containment reference for every path string over {/ . a} up to length 8 (thorough: {/ . a b} to 9): accepted => stays inside (NoEscape) and stays inside => accepted (NoFalseRefusal). The real new_subfs() over a recording underlay is executed for every string in scope, every one- and two-path operation, plus long paths around the PATH_MAX limit and seeded random strings; each recorded (rejected | forwarded path) is judged by the reference and by the transcribed PathCat in a trace specification.',
   note='Containment is lexical (symbolic links on the underlay are outside the statement). TLC result holds for the stated string scope; longer strings only through seeded random cases.',
   technique='TLA+ transcription + TLC exhaustive small-scope equivalence with lexical-containment reference; trace validation of real outputs (TLC) per operation',
   design='3/C20')

def run(ctx):
    t = ctx.tier
    r = ctx.mc('SubFS', f'MC_SubFS_{t}.cfg', timeout=900)
    if r['inv_violated'] or r['rc'] != 0:
        rp = ctx.save_replay('mc_counterexample.txt', r['out'][-6000:])
        ctx.violation(f'specification SubFS violates {r["inv_violated"]}', rp)
        return ctx.finish()
    ctx.build_lib()
    h = ctx.build_harness('h_subfs')
    trace = f'{ctx.out}/subfs.ndjson'
    ctx.run_harness(h, ['--out', trace, '--seed', ctx.seed, '--tier', t], ok_rcs=(0, 3))
    ok, n = datacheck.judge(ctx, 'Trace_SubFS', 'Trace_SubFS.cfg', trace, what='operation')
    rows = vtlib.read_ndjson(trace)
    ops = sorted({r_.get('op') for r_ in rows if 'op' in r_})
    ctx.samples = [{'constants': open(f'{vtlib.SPEC}/MC_SubFS_{t}.cfg').read()}, rows[5], rows[len(rows)//2], rows[-1]]
    ctx.extra.update({'operations_executed_on_real_code': n, 'operations_agreeing_with_reference': ok,
                      'operation_kinds': ops, 'exhaustive': True,
                      'explanation': 'states = scan steps of level_valid over every string in scope; traces = sub-fs operations '
                                     'executed on the real code (rejected / forwarded path) judged by the reference'})
    ctx.assumptions = ['containment is lexical (symbolic links are outside the statement)',
                       'a rejected operation is one whose path reaches the underlay as a null pointer (that is what PathCat does)',
                       'symlink(): only the new name is a path of the sub-filesystem; the target string is link content']
    return ctx.finish()

def replay(ctx, path):
    datacheck.judge(ctx, 'Trace_SubFS', 'Trace_SubFS.cfg', path, what='operation')
    return 1 if ctx.violations else 0
