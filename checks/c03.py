"""C03 condition variable: CondVar.tla (critical-section level model, with the deliberately broken unlock-before-enqueue
variant as anti-vacuity witness) + Tier-A conformance of h_sync --prim cv | cvspin against Trace_CvA.tla."""
import os
import vtlib
from checks import synccheck

META = dict(
    text='TLC exhausts the wait / notify protocol at critical-section granularity (CondVar.tla: 2 waiters + 2 notifiers, mutex or spinlock as the user lock, timeouts, notify with and without the lock; waiter is linked into the wait queue BEFORE the user lock is released on the next stack) for NoLostNotification, NotifyOneExact, NotifyAllCoversWaiters and ReturnsWithLock; the same module with the unlock moved before the enqueue must produce a lost notification (anti-vacuity). Recorded executions of the real condition_variable (random programs of wait(lock, timeout 200us..inf) / notify_one / notify_all with and without the lock held, mutex and spinlock flavours, 1-3 vCPUs) are validated by TLC against the abstract object (lock owner + waiting set): release-and-wait is one instant, notify_one returns a thread iff the waiting set was non-empty and removes exactly that thread, notify_all covers everyone waiting when it began, wait() returns holding the lock, 0 iff notified, -1/ETIMEDOUT only after the deadline; threads found asleep must still be in the waiting set. Scripted one-vCPU sequences (conductor) are judged the same way. Tier B: in further executions the guarded hook events are checked for the protocol order itself: the waiter is linked into the condition variable\'s queue (hSleep) before its mutex is released (hMtxUnlock); an unlock in between is rejected on any execution that takes such a path, whether or not a notifier ran in the gap. The conductor can keep the user mutex across steps (H / R), so a waiter that is notified, timed out or interrupted meanwhile has to queue for it: wait() must still return only as the owner.',
    note='TLC results hold for the stated populations; conformance samples schedules. Elapsed time is measured on the runtime clock around the call with a freshly updated clock.',
    technique='TLA+ critical-section model checked exhaustively by TLC (with a broken variant as witness); TLC trace validation against the abstract condition variable of executions recorded from the real code',
    design='3/C03')

MODES_Q = [('cv', 150), ('cvspin', 120), ('ccv', 1000), ('ccvspin', 600)]
MODES_T = [('cv', 2500), ('cvspin', 2000), ('ccv', 25000), ('ccvspin', 15000)]
MC = [('MC_CondVar', 'MC_CondVar_mutex.cfg', 900), ('MC_CondVar', 'MC_CondVar_spin.cfg', 900)]


DROP_B = ('hPreSwitch', 'hDrain', 'hHeap', 'hSteal', 'Script')


def run_tier_b(ctx):
    """Tier B: order of the hook events of wait(mutex): the waiter is linked into the queue before its mutex is released."""
    from checks import tracecheck
    h = ctx.build_harness('h_sync')
    q = ctx.tier == 'quick'
    n_exec, n_waits = 0, 0
    for prim, execs, vc in [('cv', 120 if q else 3000, 3), ('ccv', 500 if q else 15000, 1)]:
        trace = f'{ctx.out}/{prim}_B.ndjson'
        rc, o, e = ctx.run_harness(h, ['--prim', prim, '--execs', execs, '--seed', ctx.seed + 300, '--vcpus', vc, '--threads', 4,
                                        '--ops', 5, '--hooks', '--out', trace], timeout=1500, ok_rcs=(0, 4))
        if rc == 124:
            raise vtlib.InfraError(f'h_sync --prim {prim} --hooks timed out')
        rows = [r for r in vtlib.read_ndjson(trace) if r['e'] not in DROP_B]
        n_waits += sum(1 for r in rows if r['e'] == 'hSleep' and r.get('q') == 201)
        acc, rejs, n = tracecheck.validate(ctx, 'Trace_CvB', 'Trace_CvB.cfg', rows, tagbase=f'cvB_{prim}', chunk_events=6000)
        n_exec += n
        tracecheck.report(ctx, rejs, f'{prim} (protocol level)', name=f'cvB_{prim}')
    if not n_waits:
        raise vtlib.InfraError('no condition-variable enqueue events recorded: are the guarded hooks compiled in?')
    ctx.extra['tier_b_executions'] = n_exec
    ctx.extra['tier_b_cv_enqueues'] = n_waits


def run(ctx):
    ctx.samples.append({'constants': open(f'{vtlib.SPEC}/MC_CondVar_mutex.cfg').read()})
    if not os.environ.get('VERIF_SKIP_MC'):
        if not synccheck.mc_all(ctx, MC):
            return ctx.finish()
        # anti-vacuity: the broken variant must violate NoLostNotification
        r = ctx.mc('MC_CondVar', 'MC_CondVar_broken.cfg', timeout=600, count=False)
        ctx.extra['broken_variant_detected'] = bool(r['inv_violated'])
        if not r['inv_violated']:
            raise vtlib.InfraError('CondVar.tla: the unlock-before-enqueue variant is not detected (vacuous model)')
    ctx.build_lib()
    synccheck.run_modes(ctx, MODES_Q if ctx.tier == 'quick' else MODES_T, 'Trace_CvA', 'Trace_CvA.cfg')
    run_tier_b(ctx)
    return ctx.finish()


def replay(ctx, path):
    return synccheck.replay(ctx, 'Trace_CvA', 'Trace_CvA.cfg', path)
