"""C03 condition variable: CondVar.tla (critical-section level model, with the deliberately broken unlock-before-enqueue
variant as anti-vacuity witness) + Tier-A conformance of h_sync --prim cv | cvspin against Trace_CvA.tla."""
import os
import vtlib
from checks import synccheck

META = dict(
    text='TLC exhausts the wait / notify protocol at critical-section granularity (CondVar.tla: 2 waiters + 2 notifiers, mutex or spinlock as the user lock, timeouts, notify with and without the lock; waiter is linked into the wait queue BEFORE the user lock is released on the next stack) for NoLostNotification, NotifyOneExact, NotifyAllCoversWaiters and ReturnsWithLock; the same module with the unlock moved before the enqueue must produce a lost notification (anti-vacuity). Recorded executions of the real condition_variable (random programs of wait(lock, timeout 200us..inf) / notify_one / notify_all with and without the lock held, mutex and spinlock flavours, 1-3 vCPUs) are validated by TLC against the abstract object (lock owner + waiting set): release-and-wait is one instant, notify_one returns a thread iff the waiting set was non-empty and removes exactly that thread, notify_all covers everyone waiting when it began, wait() returns holding the lock, 0 iff notified, -1/ETIMEDOUT only after the deadline; threads found asleep must still be in the waiting set.',
    note='TLC results hold for the stated populations; conformance samples schedules. Elapsed time is measured on the runtime clock around the call with a freshly updated clock.',
    technique='TLA+ critical-section model checked exhaustively by TLC (with a broken variant as witness); TLC trace validation against the abstract condition variable of executions recorded from the real code',
    design='3/C03')

MODES_Q = [('cv', 150), ('cvspin', 120), ('ccv', 1000), ('ccvspin', 600)]
MODES_T = [('cv', 2500), ('cvspin', 2000), ('ccv', 25000), ('ccvspin', 15000)]
MC = [('MC_CondVar', 'MC_CondVar_mutex.cfg', 900), ('MC_CondVar', 'MC_CondVar_spin.cfg', 900)]


def run(ctx):
    ctx.samples.append({'constants': open(f'{vtlib.SPEC}/MC_CondVar_mutex.cfg').read()})
    if not os.environ.get('VERIF_SKIP_MC'):
        if not synccheck.mc_all(ctx, MC):
            return ctx.finish()
        # anti-vacuity: the broken variant must violate NoLostNotification
        r = ctx.mc('MC_CondVar', 'MC_CondVar_broken.cfg', timeout=600, count=False)
        ctx.extra['broken_variant_detected'] = bool(r['inv_violated'])
        if not r['inv_violated']:
            raise vtlib.InfraError('CondVar.tla: the unlock-before-enqueue variant is not detected (vacuous model)')
    ctx.build_lib()
    synccheck.run_modes(ctx, MODES_Q if ctx.tier == 'quick' else MODES_T, 'Trace_CvA', 'Trace_CvA.cfg')
    return ctx.finish()


def replay(ctx, path):
    return synccheck.replay(ctx, 'Trace_CvA', 'Trace_CvA.cfg', path)
