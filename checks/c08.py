"""C08 WorkPool: every task runs exactly once; call() returns after its task finished.
 (1) TLC: WorkPool.tla - main_loop / delegate_helper / do_call / async_call / ~impl of thread/workerpool.cpp at the granularity
     of one action per atomic ring operation, blocking point and context switch, on top of the cooperative run queue of each
     worker vCPU (thread_yield / thread_create / thread_yield_to / sleep / wake as thread.cpp orders the queue), for the three
     thread modes.  One TLC run covers a set of configurations (the configuration is picked in Init).
     Deliberately broken variants (copy after a yield, no thread_yield_to, no wait for running tasks, awaiter resumed before the
     task, one stop marker short, functor not deleted) must each violate the property they attack (anti-vacuity), and the
     situations the property is about (full ring with a blocked sender, destructor posting markers while tasks run / sleep, marker
     blocked by a full ring, helper thread pending while others run, pooled thread reused / pool overflow) must be reachable.
 (2) conformance, Tier A: harness/h_workpool (random programs on the real WorkPool) judged by Trace_WorkPoolA.tla."""
import os, re, threading
from concurrent.futures import ThreadPoolExecutor
import vtlib
from checks import synccheck

META = dict(
    text='TLC exhausts a model of photon::WorkPool transcribed from thread/workerpool.cpp (WorkPool.tla: 2 worker vCPUs each with its cooperative run queue ordered as thread.cpp orders it, a dispatch ring of 2 slots taken as an atomic FIFO, a photon-thread submitter and an OS-thread submitter handing over 3 and 4 tasks through call() (semaphore / promise awaiter in the caller\'s frame) and async_call() (heap functor), task bodies that return at once, yield or sleep, thread modes -1 (inline), 0 (new photon thread per task) and >0 (per-worker thread pool of capacity 1: reuse of an idle pooled thread, creation, overflow with its extra yield and the pool reference count), the destructor started right after the last hand-over returned: one stop marker per registered worker, join, wait for deregistration, ring destroyed; optionally one worker that joined through join_current_vcpu_into_workpool) and checks RunsExactlyOnce, CallReturnsAfterFinish, AsyncDeletedOnceAfterRun, RecordCopiedBeforeReuse (the helper thread copies the dispatcher\'s stack record before the dispatcher\'s loop iteration ends, in every interleaving the run queue allows), DestructorWaits, EveryWorkerGetsOneMarker, absence of faults (use of the caller\'s frame after call() returned, promise satisfied twice, functor used after / deleted twice, ring used after destruction), NoStuck (nothing but polling possible => destructor finished) and, on the smallest configuration under weak fairness, termination. Seven deliberately broken variants must each violate the property they attack and eight situations of interest must be reachable. Recorded executions of the real WorkPool (1-3 pool vCPUs, optional externally joined vCPU, modes -1 / 0 / 4, rings of 1, 2, 3, 4 and 64 slots, 1-4 submitters that are photon threads on 3 other vCPUs or plain OS threads using PhotonContext / StdContext / AutoContext and both forms of call(), bursts of async_call() larger than the ring, bodies that return, yield, sleep up to 7 ms or spin, the pool destroyed by the submitter that finished last or by the main thread immediately afterwards) are validated by TLC against the abstract pool: each task starts once after it was handed over and ends once on a pool vCPU, call() returns after its task ended, each async functor is deleted once after its task ended and is intact when run and deleted, ~WorkPool() returns only after every handed-over task ended and was deleted, nothing runs afterwards; a crash or a hang rejects the execution. Photon submitters blocked in call() are interrupted (thread_interrupt) in part of the executions: call() must still not return before its task ended.',
    note='TLC results hold for the stated populations. The MPMC ring is taken as an atomic FIFO and its wake-up protocol as "timed waits re-poll" (C07); semaphore and promise awaiters as their abstract objects (C02). The model is sequentially consistent. Conformance samples schedules; on the real code the hand-off of the stack record is observed only through its consequences (a task that runs twice / never / with a corrupted functor, a crash). No sanitizer build: photon switches stacks underneath ASan. thread_migrate() into the pool is not exercised.',
    technique='TLA+ protocol model checked exhaustively by TLC (configuration sets, broken-variant and reachability witnesses recorded in TLC registers, liveness on the smallest configuration); TLC trace validation of executions recorded from the real WorkPool against the abstract pool',
    design='3/C08')

ALL_MODES = ('inline', 'thread', 'pooled')
# variant -> (mode, property it must violate)
WITNESS = [('late_copy', 'thread', 'RecordCopiedBeforeReuse'), ('no_yield_to', 'thread', 'RecordCopiedBeforeReuse'),
           ('no_yield_to', 'pooled', 'RecordCopiedBeforeReuse'), ('no_drain', 'thread', 'DestructorWaits'),
           ('no_drain', 'pooled', 'DestructorWaits'), ('resume_early', 'thread', 'CallReturnsAfterFinish'),
           ('resume_early', 'inline', 'CallReturnsAfterFinish'), ('marker_short', 'inline', 'NoStuck'),
           ('no_delete', 'inline', 'AsyncDeletedOnceAfterRun')]
WITNESS_Q = [WITNESS[0], WITNESS[2], WITNESS[3], WITNESS[6], WITNESS[7], WITNESS[8]]
REACH = [(m, r) for m in ALL_MODES for r in ('full_ring', 'dtor_while_running', 'sleeping_at_dtor', 'marker_blocked_by_full_ring')] + \
        [(m, r) for m in ('thread', 'pooled') for r in ('two_helpers', 'helper_pending_other_running')] + \
        [('pooled', 'pool_overflow'), ('pooled', 'pooled_thread_reused')]

# many JVMs run side by side: keep each one's GC thread pool small
JENV = {'JAVA_TOOL_OPTIONS': '-XX:ParallelGCThreads=2'}
MC_Q = [('MC_WorkPool_quick.cfg', 4)]
MC_T = MC_Q + [('MC_WorkPool_3a_thorough.cfg', 3), ('MC_WorkPool_4a_thorough.cfg', 4), ('MC_WorkPool_4b_thorough.cfg', 6),
               ('MC_WorkPool_ext_thorough.cfg', 3), ('MC_WorkPool_w3_thorough.cfg', 4), ('MC_WorkPool_live_thorough.cfg', 2)]
# per thread mode: the general random programs and the "x" flavour (an externally joined vCPU next to one owned vCPU, long sleeps)
MODES_Q = [(m, [(m, 60), (m + 'x', 25)]) for m in ALL_MODES]
MODES_T = [(m, [(m, 700), (m + 'x', 150)]) for m in ALL_MODES]


def _triples(out, tag):
    m = re.search(r'<<\s*"%s",\s*\{(.*?)\}\s*>>' % tag, out, re.S)
    if not m:
        return None
    return {tuple(re.findall(r'"([^"]*)"', t)) for t in re.findall(r'<<([^<>]*)>>', m.group(1))}


def model_checking(ctx):
    """returns False if a specification run reported a violation"""
    runs = MC_Q if ctx.tier == 'quick' else MC_T
    ok = [True]
    lock = threading.Lock()

    def plain(cfg, workers):
        r = ctx.mc('MC_WorkPool', cfg, timeout=2400, workers=workers, xmx='6g', count=False, env=JENV)
        with lock:
            ctx.states += r['distinct']
            ctx.transitions += r['generated']
        if r['rc'] != 0:
            rp = ctx.save_replay(f'mc_{cfg}.txt', r['out'][-8000:])
            ctx.violation(f'specification WorkPool/{cfg} violates {r["inv_violated"] or "a property"}', rp)
            ok[0] = False

    def witness():
        # broken variants: the run itself "passes" (violating states are recorded in a register and cut off)
        r = ctx.mc('MC_WorkPool', 'MC_WorkPool_witness.cfg' if ctx.tier == 'quick' else 'MC_WorkPool_witness_thorough.cfg', timeout=1200, workers=1, xmx='3g', count=False, env=JENV)
        got = _triples(r['out'], 'WITNESS')
        if r['rc'] != 0 or got is None:
            raise vtlib.InfraError(f'witness run of WorkPool.tla failed, see {r["log"]}')
        want = WITNESS_Q if ctx.tier == 'quick' else WITNESS
        missed = [w for w in want if (w[0], w[1], w[2]) not in got]
        ctx.extra['broken_variants_detected'] = sorted(f'{v}/{m}: {p}' for v, m, p in WITNESS if (v, m, p) in got)
        if missed:
            raise vtlib.InfraError(f'WorkPool.tla: broken variants not detected (vacuous model): {missed}')

    def reach():
        r = ctx.mc('MC_WorkPool', 'MC_WorkPool_reach_thorough.cfg', timeout=2400, workers=1, xmx='4g', count=False, env=JENV)
        got = _triples(r['out'], 'REACHED')
        if r['rc'] != 0 or got is None:
            raise vtlib.InfraError(f'reachability run of WorkPool.tla failed, see {r["log"]}')
        missed = [x for x in REACH if x not in got]
        ctx.extra['situations_reached'] = sorted(f'{m}: {s}' for m, s in got)
        if missed:
            raise vtlib.InfraError(f'WorkPool.tla: situations not reachable (vacuous model): {missed}')

    jobs = [lambda c=c, w=w: plain(c, w) for c, w in runs] + [witness] + ([reach] if ctx.tier != 'quick' else [])
    with ThreadPoolExecutor(max_workers=len(jobs)) as ex:
        for f in [ex.submit(j) for j in jobs]:
            f.result()
    return ok[0]


def conformance(ctx, modes):
    """the three thread modes side by side: run the harness, validate the recorded executions, report rejections"""
    from checks import tracecheck
    h = ctx.build_harness('h_workpool')
    lock = threading.Lock()
    kinds, totals = {}, {'executions': 0, 'tasks': 0}
    chunk = 2600 if ctx.tier == 'quick' else 7000

    def one(mode, prims):
        rows = []
        for prim, execs in prims:
            trace = f'{ctx.out}/{prim}.ndjson'
            rc, o, e = ctx.run_harness(h, ['--prim', prim, '--execs', execs, '--seed', ctx.seed, '--vcpus', 3, '--threads', 4,
                                            '--ops', 5, '--out', trace], timeout=1500, ok_rcs=(0, 3, 4))
            if rc == 124:
                raise vtlib.InfraError(f'h_workpool --prim {prim} timed out')
            got = vtlib.read_ndjson(trace)
            if not got:
                raise vtlib.InfraError(f'h_workpool --prim {prim} recorded nothing')
            rows += got
        acc, rejs, n = tracecheck.validate(ctx, 'Trace_WorkPoolA', 'Trace_WorkPoolA.cfg', rows, chunk_events=chunk, par=4,
                                           tagbase=f'Trace_WorkPoolA_{mode}', extra_env=JENV)
        with lock:
            totals['executions'] += n
            for r in rows:
                kinds[r['e']] = kinds.get(r['e'], 0) + 1
                if r['e'] == 'Reset':
                    totals['tasks'] += r['ntask']
                    for k in ('nv', 'ext', 'ring', 'by'):
                        kinds[f'Reset:{k}={r[k]}'] = kinds.get(f'Reset:{k}={r[k]}', 0) + 1
            ex = tracecheck.split_execs(rows)
            pick = max(ex[:40], key=len)
            ctx.samples.append({'mode': mode, 'recorded_execution': pick[:45]})
            tracecheck.report(ctx, rejs, mode, name=f'Trace_WorkPoolA_{mode}')

    with ThreadPoolExecutor(max_workers=len(modes)) as ex:
        for f in [ex.submit(one, m, prims) for m, prims in modes]:
            f.result()
    ctx.extra['executions_recorded'] = totals['executions']
    ctx.extra['tasks_handed_over'] = totals['tasks']
    ctx.extra['event_kinds'] = dict(sorted(kinds.items()))


def run(ctx):
    ctx.samples.append({'constants': open(f'{vtlib.SPEC}/MC_WorkPool_quick.cfg').read(),
                        'configurations': 'CfgQuick == {MkCfg(m, "none", Prog3b) : m \\in {"inline","thread","pooled"}}, Prog3b == s1 (photon): async 1, async 2; s2 (OS thread): call 3'})
    ctx.assumptions = ['sequential consistency in the specification', 'the dispatch ring is an atomic FIFO whose blocked parties re-poll (C07)',
                       'kernel / OS scheduling picks the interleavings that are sampled']
    ctx.build_lib()
    with ThreadPoolExecutor(max_workers=1) as ex:
        # model checking runs next to the conformance part (both mostly wait for JVMs on a loaded machine)
        fut = None if os.environ.get('VERIF_SKIP_MC') else ex.submit(model_checking, ctx)
        try:
            conformance(ctx, MODES_Q if ctx.tier == 'quick' else MODES_T)
        finally:
            if fut:
                fut.result()
    t = os.times()
    ctx.extra['cpu_s'] = round(t.children_user + t.children_system + t.user + t.system, 1)
    return ctx.finish()


def replay(ctx, path):
    return synccheck.replay(ctx, 'Trace_WorkPoolA', 'Trace_WorkPoolA.cfg', path)
