"""C10 socket streams over the event engine.
 (1) TLC: SockStream.tla (a connected pair as a bounded kernel pipe; doio_once / doio_loop / BufStep / BufStepV and the
     per-call timeout transcribed; syscalls resolved by the environment; every program / iovec segmentation in scope) for
     StreamExact, ReadWriteComplete, RecvSendBounds, NoHangPastTimeout;  Epoll.tla (io/epoll.cpp: interest table, kernel
     registration {mask, armed}, one-shot re-arm, batch of fetched events) and EpollNG.tla (io/epoll-ng.cpp: per-direction
     pollers, stack-resident Event, reap now / fire later) for EventGoesToItsWaiter, NoLostReadiness, TimeoutIsolated (and
     NoDanglingEvent); broken variants as witnesses.
 (2) conformance without library hooks: harness/h_sock.cpp interposes send/recv/sendmsg/recvmsg/read/readv/write/writev/
     epoll_ctl/epoll_wait, runs seeded programs over real Unix-domain / loopback-TCP / socketpair connections (photon streams
     of the epoll, epoll-ng and edge-triggered kinds, and the fd-level functions of net/basic_socket.cpp) against raw peers or
     a second photon stream, with seeded fault injection (EINTR / EAGAIN / short transfers);
     Tier A: Trace_SockStreamA.tla replays the syscall results as the environment and checks the library's reaction and the
     byte stream; Tier B (epoll engine): Trace_EpollB.tla replays epoll_ctl / epoll_wait against the registration model."""
import os, json, time
from concurrent.futures import ThreadPoolExecutor
import vtlib
from checks import tracecheck

META = dict(
    text='TLC exhausts (a) SockStream.tla: one direction of a connected socket pair as a bounded kernel pipe (capacity 2-3) with the library\'s read/readv/recv/write/writev/send transcribed from doio_once (EINTR: retry, EAGAIN: wait_for_fd, failed wait: return -1), doio_loop with BufStep / BufStepV (extract_front, empty elements skipped) and the per-call timeout; every syscall result is an environment choice (1..min(n, free/avail), EAGAIN also spuriously, EINTR, 0 at end of stream, shutdown between any two calls); Init ranges over every program of <= 2 calls, <= 5 bytes, <= 3 iovec elements (empty elements included), library or raw peer on either side; invariants StreamExact (what the kernel accepted is call after call a prefix of the user\'s buffers in order, what the reader\'s buffers hold is exactly once and in order a prefix of it, nothing else written), ReadWriteComplete, RecvSendBounds, NoHangPastTimeout (abstract clock), and that the view kept by BufStepV is the function of the moved count which the trace specification uses; (b) Epoll.tla: io/epoll.cpp with interest table, waiter per descriptor and direction, kernel registration {mask, armed}, one-shot delivery, ADD / MOD (ENOENT fallback) / DEL / no-op cases of add_interest and rm_interest, batches of <= 2 fetched events, expiry and interrupt of sleeping waiters (including an event reaching a thread that is already READY), close; 2 descriptors x 2 directions, 3 threads; invariants EventGoesToItsWaiter, NoLostReadiness, WaiterConsistent and the action property TimeoutIsolated; also with threads running between the firing of two fetched events; (c) EpollNG.tla: io/epoll-ng.cpp (per-direction pollers, Event object on the waiter\'s stack, events reaped by one call and fired by the next, the waiter\'s own wait_and_fire_events(0) before it returns) with NoDanglingEvent in addition. Deliberately broken variants (pointer not advanced, empty elements not skipped, timeout restarted per wait, EINTR returned, count returned on timeout; no re-arm of the remaining direction, DEL instead of MOD on a waiter\'s clean-up, firing without the interest check; no pending-event drain before the epoll-ng waiter returns) must each be caught. Conformance needs no library hooks: the harness executable interposes send/recv/sendmsg/recvmsg/read/readv/write/writev/epoll_ctl/epoll_wait and records arguments (as extents of the user\'s buffers) and results for the descriptors under test, optionally turning a call into EINTR, EAGAIN or a shorter transfer; seeded programs run over real Unix-domain and loopback-TCP connections with minimal socket buffers and socketpairs (KernelSocketStream on the epoll and epoll-ng engines, edge-triggered streams, and the fd-level read_n/readv_n/write_n/writev_n/send/recv/sendv family), 1-2 connections sharing the vCPU, both directions of one descriptor awaited at once, raw peers that trickle, stall past the stream timeout and shut down at any offset, a second photon stream as the peer, interrupts, messages from 0 bytes to several socket buffers in up to 12 iovec elements, and 17-24 connections made readable at once (16-event batch boundary). TLC validates every recorded execution: Tier A replays the syscall results as the environment and checks legality of each result (no more than in flight, content by position through a positional checksum, 0 only at end of stream), the library\'s reaction (same call again after EINTR; after EAGAIN either the same call or -1 with ETIMEDOUT only with a timeout and only after it elapsed, or with an interrupter\'s errno; after k bytes exactly the rest of the user\'s buffers as BufStep/BufStepV leave them), the returned count (ReadWriteComplete, RecvSendBounds), the user buffer (exactly the bytes moved, nothing else touched) and that at quiescence every flow was delivered completely and once; a call that never returns is a Hang event no behaviour explains. Tier B (epoll engine) replays epoll_ctl / epoll_wait against the registration model: the registration after EAGAIN carries the caller\'s direction plus exactly the other awaited direction, a thread retries only after an event for its descriptor and direction was delivered, and whenever a photon thread runs every untold waiter is armed with its direction in the mask (one-shot re-arm, timeout isolation).',
    note='TLC results hold for the stated scope. The kernel is an assumption: socket buffer behaviour and epoll one-shot semantics are the environment of the models, and a recorded syscall result is only checked to be one the model allows. Conformance samples schedules on one vCPU per engine; readiness lost for a call WITH a short timeout shows only as ETIMEDOUT, which the property allows - lost readiness is detected on calls without (or with a long) timeout as a call that never returns. Upper bounds on elapsed time are not checked in wall-clock terms (only "ETIMEDOUT not before the timeout" and "returns at all"). Tier B covers io/epoll.cpp; epoll-ng and the edge-triggered sockets are covered by Tier A only. io_uring is not built in this tree.',
    technique='TLA+ models checked exhaustively by TLC (with broken variants as witnesses); TLC trace validation of executions recorded from the real code through libc interposition (syscall results replayed as environment choices; transcription of BufStep/BufStepV shared between model and trace specification)',
    design='3/C10')

# (mode, executions)
MODES_Q = [('epoll', 70), ('epollng', 50), ('et', 50), ('fdapi', 50), ('epollbig', 6), ('epollngbig', 4), ('etbig', 4), ('fdapibig', 4),
           ('batchepoll', 3), ('batchepollng', 2), ('batchet', 2), ('batchfdapi', 2)]
MODES_T = [('epoll', 1000), ('epollng', 700), ('et', 700), ('fdapi', 700), ('epollbig', 60), ('epollngbig', 40), ('etbig', 40), ('fdapibig', 40),
           ('batchepoll', 25), ('batchepollng', 15), ('batchet', 15), ('batchfdapi', 15)]
EPOLL_ENGINE = ('epoll', 'fdapi', 'epollbig', 'fdapibig', 'batchepoll', 'batchfdapi')

# (module, cfg, timeout, witness: None = must hold | name of the property that must be violated)
MC_Q = [('MC_SockStream', 'MC_SockStream_w_quick.cfg', 900, None), ('MC_SockStream', 'MC_SockStream_r_quick.cfg', 900, None),
        ('MC_SockStream', 'MC_SockStream_wr_quick.cfg', 900, None),
        ('MC_Epoll', 'MC_Epoll_quick.cfg', 900, None), ('MC_EpollNG', 'MC_EpollNG_quick.cfg', 900, None),
        ('MC_SockStream', 'MC_SockStream_bug_noadvance.cfg', 600, 'StreamExact'),
        ('MC_Epoll', 'MC_Epoll_bug_norearm.cfg', 600, 'NoLostReadiness'),
        ('MC_EpollNG', 'MC_EpollNG_bug_nodrain.cfg', 600, 'NoDanglingEvent')]
MC_T = [('MC_SockStreamT', 'MC_SockStream_w_thorough.cfg', 3000, None), ('MC_SockStreamT', 'MC_SockStream_r_thorough.cfg', 3000, None),
        ('MC_SockStreamT', 'MC_SockStream_wr_thorough.cfg', 3000, None),
        ('MC_Epoll', 'MC_Epoll_thorough.cfg', 1800, None), ('MC_Epoll', 'MC_Epoll_cascade.cfg', 1800, None),
        ('MC_EpollNG', 'MC_EpollNG_thorough.cfg', 1800, None),
        ('MC_SockStream', 'MC_SockStream_bug_noadvance.cfg', 600, 'StreamExact'),
        ('MC_SockStream', 'MC_SockStream_bug_noskip.cfg', 600, 'WaitsOnlyForData'),
        ('MC_SockStream', 'MC_SockStream_bug_perwait.cfg', 600, 'NoHangPastTimeout'),
        ('MC_SockStream', 'MC_SockStream_bug_eintr.cfg', 600, ('ReadWriteComplete', 'RecvSendBounds')),
        ('MC_SockStream', 'MC_SockStream_bug_wrongfail.cfg', 600, ('ReadWriteComplete', 'RecvSendBounds')),
        ('MC_Epoll', 'MC_Epoll_bug_norearm.cfg', 600, 'NoLostReadiness'),
        ('MC_Epoll', 'MC_Epoll_bug_delall.cfg', 600, 'TimeoutIsolated'),
        ('MC_Epoll', 'MC_Epoll_bug_nocheck.cfg', 600, 'EventGoesToItsWaiter'),
        ('MC_EpollNG', 'MC_EpollNG_bug_nodrain.cfg', 600, 'NoDanglingEvent')]


def _mc_start(ctx, jobs, par, workers):
    """model-checking runs in the background (each TLC start costs many seconds on a busy machine); judged by _mc_finish"""
    ex = ThreadPoolExecutor(max_workers=par)
    futs = [(j, ex.submit(ctx.tlc, j[0], j[1], workers=workers, timeout=j[2], xmx='6g')) for j in jobs]
    ex.shutdown(wait=False)
    return futs


def _mc_finish(ctx, futs):
    ok = True
    wit = {}
    for (mod, cfg, to, witness), fu in futs:
        r = fu.result()
        if r['timeout']:
            raise vtlib.InfraError(f'TLC timed out on {mod}/{cfg} (see {r["log"]})')
        if r['error'] or (r['rc'] not in (0, 12, 13, 11, 10)):
            raise vtlib.InfraError(f'TLC failed on {mod}/{cfg} rc={r["rc"]} (see {r["log"]})\n' + r['out'][-1500:])
        ctx.mc_runs.append({k: r[k] for k in ('module', 'cfg', 'generated', 'distinct', 'depth', 'wall_s', 'rc')})
        if witness is None:
            ctx.states += r['distinct']
            ctx.transitions += r['generated']
            if r['rc'] != 0:
                rp = ctx.save_replay(f'mc_{cfg}.txt', r['out'][-8000:])
                ctx.violation(f'specification {mod}/{cfg} violates {r["inv_violated"] or "a property"}', rp)
                ok = False
        else:
            names = (witness,) if isinstance(witness, str) else witness
            hit = any(w in r['inv_violated'] for w in names) or ('TimeoutIsolated' in names and r['prop_violated'])
            wit[cfg.replace('.cfg', '')] = bool(hit)
            if not hit:
                raise vtlib.InfraError(f'{cfg}: the broken variant is not detected as a violation of {witness} (vacuous model), see {r["log"]}')
    ctx.extra['witnesses_detected'] = wit
    return ok


def _exec_mode(ex):
    return ex[0].get('prim', '?') if ex and ex[0].get('e') == 'Reset' else '?'


def _coverage(rows, cov):
    """what the recorded executions exercised (anti-vacuity of the conformance part)"""
    pos = {}
    for r in rows:
        e = r['e']
        if e == 'Inv':
            pos[r['t']] = [0, 0]                    # [positive transfers, EAGAIN seen]
        elif e == 'Sys':
            k = pos.get(r['t'])
            if r['r'] > 0 and k is not None:
                k[0] += 1
                if k[0] == 2:
                    cov['calls_resumed_after_partial_transfer'] += 1
                if k[1]:
                    cov['retries_after_wait_that_moved_bytes'] += 1
                    k[1] = 0
            if r['r'] == -1 and r['en'] == 11:
                cov['eagain'] += 1
                if k is not None:
                    k[1] = 1
            if r['r'] == -1 and r['en'] == 4:
                cov['eintr'] += 1
            if r['inj'] == 1:
                cov['shortened'] += 1
            if len(r['x']) > 1 and any(x[2] == 0 for x in r['x']):
                cov['syscalls_with_empty_element'] += 1
        elif e == 'Resp':
            if r['r'] == -1 and r['en'] == 110:
                cov['etimedout'] += 1
            elif r['r'] == -1:
                cov['interrupted'] += 1
        elif e == 'EpWait':
            if r['n'] == r['max']:
                cov['full_batches'] += 1
        elif e == 'Ctl':
            if r['in'] and r['out'] and r['r'] == 0:
                cov['both_directions_registered'] += 1
            if r['t'] == 0 and r['op'] == 'mod' and r['r'] == 0:
                cov['one_shot_rearm'] += 1
        elif e == 'PeerRead' and r['r'] == 0:
            cov['end_of_stream'] += 1


class _Counter:
    """proxy with its own accepted-execution counter (Tier A and Tier B are validated at the same time)"""
    def __init__(self, ctx):
        self._c = ctx
        self.traces_ok = 0
    def __getattr__(self, k):
        return getattr(self._c, k)


def _validate(ctx, module, execs, tag, what, chunk):
    rows = [r for e in execs for r in e]
    if not rows:
        return 0
    acc, rejs, n = tracecheck.validate(ctx, module, module + '.cfg', rows, chunk_events=chunk, par=8, timeout=1500, tagbase=tag)
    for rj in rejs:
        mode = _exec_mode(rj['exec'])
        tracecheck.report(ctx, [rj], f'{what} {mode}', name=f'{module}_{mode}')
    return n


def run(ctx):
    t_cpu = os.times()
    quick = ctx.tier == 'quick'
    ctx.samples.append({'constants': {c: open(f'{vtlib.SPEC}/{c}').read() for c in
                                      ('MC_SockStream_w_quick.cfg' if quick else 'MC_SockStream_w_thorough.cfg', 'MC_Epoll_quick.cfg')}})
    futs = None
    if not os.environ.get('VERIF_SKIP_MC'):
        futs = _mc_start(ctx, MC_Q if quick else MC_T, par=8 if quick else 6, workers=3 if quick else 5)
    ctx.build_lib()
    h = ctx.build_harness('h_sock')
    modes = MODES_Q if quick else MODES_T
    if os.environ.get('VERIF_C10_MODES'):        # experiments only, e.g. "epoll:40,et:30"
        modes = [(m.split(':')[0], int(m.split(':')[1])) for m in os.environ['VERIF_C10_MODES'].split(',')]

    def record(m):
        prim, execs = m
        trace = f'{ctx.out}/{prim}.ndjson'
        rc, o, e = ctx.run_harness(h, ['--prim', prim, '--execs', execs, '--seed', ctx.seed, '--out', trace], timeout=1500, ok_rcs=(0, 3, 4))
        if rc == 124:
            raise vtlib.InfraError(f'h_sock --prim {prim} timed out')
        rows = vtlib.read_ndjson(trace)
        if not rows:
            raise vtlib.InfraError(f'h_sock --prim {prim} recorded nothing')
        return prim, rows
    with ThreadPoolExecutor(max_workers=4) as ex:
        recorded = list(ex.map(record, modes))
    cov = {k: 0 for k in ('eagain', 'eintr', 'shortened', 'etimedout', 'interrupted', 'calls_resumed_after_partial_transfer',
                          'retries_after_wait_that_moved_bytes', 'syscalls_with_empty_element', 'full_batches',
                          'both_directions_registered', 'one_shot_rearm', 'end_of_stream')}
    execs_a, execs_b, kinds = [], [], {}
    for prim, rows in recorded:
        _coverage(rows, cov)
        for r in rows:
            k = r['e'] + (':' + r['op'] if 'op' in r and r['e'] in ('Inv', 'Resp') else '')
            kinds[k] = kinds.get(k, 0) + 1
        ex = tracecheck.split_execs(rows)
        if len(ctx.samples) < 5 and prim in ('epoll', 'et', 'fdapi'):
            ctx.samples.append({'mode': prim, 'recorded_execution': ex[min(3, len(ex) - 1)][:40]})
        for e in ex:
            execs_a.append([r for r in e if r['e'] not in ('Ctl', 'EpWait')])
            if prim in EPOLL_ENGINE and not any(r['e'] == 'Quiesce' and r.get('trunc') for r in e):
                execs_b.append([r for r in e if r['e'] not in ()])
    ca, cb = _Counter(ctx), _Counter(ctx)
    with ThreadPoolExecutor(max_workers=2) as ex:
        fa = ex.submit(_validate, ca, 'Trace_SockStreamA', execs_a, 'A', 'byte stream / call semantics:', 6000)
        fb = ex.submit(_validate, cb, 'Trace_EpollB', execs_b, 'B', 'epoll registration protocol:', 6000)
        n_a, n_b = fa.result(), fb.result()
    ctx.extra.update({'executions_recorded': n_a, 'executions_accepted_tier_A': ca.traces_ok, 'executions_tier_B': n_b,
                      'executions_accepted_tier_B': cb.traces_ok, 'event_kinds': kinds, 'exercised': cov})
    ctx.traces_ok = ca.traces_ok            # an execution counts once
    if not ctx.violations:
        missing = [k for k, v in cov.items() if v == 0]
        if missing and not os.environ.get('VERIF_C10_MODES'):
            raise vtlib.InfraError(f'conformance run is vacuous: nothing recorded for {missing}')
    if futs is not None:
        _mc_finish(ctx, futs)
    t1 = os.times()
    ctx.extra['cpu_s'] = round((t1.children_user + t1.children_system + t1.user + t1.system)
                               - (t_cpu.children_user + t_cpu.children_system + t_cpu.user + t_cpu.system), 1)
    ctx.assumptions = ['kernel behaviour (socket buffers, epoll one-shot semantics) as modelled: the environment of the specifications',
                       'sequential consistency; one vCPU per engine (photon threads switch only at blocking points)',
                       'one reader and one writer per stream direction at a time']
    return ctx.finish()


def replay(ctx, path):
    rows = vtlib.read_ndjson(path)
    execs = tracecheck.split_execs(rows)
    n = _validate(ctx, 'Trace_SockStreamA', [[r for r in e if r['e'] not in ('Ctl', 'EpWait')] for e in execs], 'replayA',
                  'byte stream / call semantics:', 6000)
    eb = [e for e in execs if _exec_mode(e) in EPOLL_ENGINE and any(r['e'] == 'Ctl' for r in e)
          and not any(r['e'] == 'Quiesce' and r.get('trunc') for r in e)]
    _validate(ctx, 'Trace_EpollB', eb, 'replayB', 'epoll registration protocol:', 6000)
    print(f'replayed {n} execution(s): {len(ctx.violations)} rejected')
    return 1 if ctx.violations else 0
