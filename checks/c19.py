"""C19 ObjectCache: one live object per key, never destroyed while borrowed.
 (1) TLC: ObjectCache.tla - ObjectCacheBase::ref_acquire / ref_release / release(key) / expire() transcribed at
     critical-section granularity (one action per `_lock` section, every blocking step separate, everything done outside the
     lock separate; items are heap objects with raw pointers carried between sections; clock, expire() and the deferred
     deletes are environment actions that may fire anywhere) for OneLiveObjectPerKey, CtorNotConcurrent,
     NeverDestroyedWhileBorrowed / NoDangling, ExpiryOnlyUnreferencedAndDue, RecyclerWaitsForAll, FailureNotSticky (NoBad),
     refcount = number of references, and deadlock freedom.  Five broken variants of the model must be caught, seven witness
     situations must be reachable (anti-vacuity).  ObjectCacheV2.tla: the box / createlock / rc / LRU protocol of
     objectcachev2.h under the assumption that no thread stalls for a whole lifespan inside ~Borrow (the configuration
     without that assumption is run too and its counterexample recorded in the evidence: suspected defect, model only).
 (2) conformance, Tier A: h_objcache --prim oc | oclimit (random programs on the real ObjectCache<int, Val*> with its real
     1 ms expiry timer); every recorded execution is validated by TLC against the abstract cache Trace_ObjectCacheA.tla."""
import os
from concurrent.futures import ThreadPoolExecutor
import vtlib
from checks import synccheck

META = dict(
    text='TLC exhausts the ObjectCache protocol (spec/ObjectCache.tla: ref_acquire, ref_release, release(key), expire() of common/expirecontainer.cpp transcribed one action per critical section of the container spinlock, with the per-item mutex, the recycler semaphore, the `blocker` condition and the unlocked steps (reading _obj after the mutex, delete item, notify_all) as separate steps; heap items with raw pointers so that a dangling pointer is visible; clock ticks, expire() and the deferred deletes fire in any state) for 3 threads x 2 keys x (1 acquire + release each) and, in the thorough tier, 3 threads x 1 key x 2 acquires, 2 threads x 2 keys x 2 acquires, a size-limited cache and a longer clock - every constructor outcome (ok / fail, slow = arbitrary interleaving while it runs), cool-down 0/1, release plain / recycle+destroy / recycle+moveout by key and by item: concurrent borrowers of a key share one item/object, at most one constructor per key at a time, no item freed / object destroyed or handed over while a borrow or a raw pointer to it is live, expiry takes only unreferenced members whose lifespan passed (or over the size limit), the recycler erases only at refcnt 0 with no holder, construction is skipped only inside the cool-down of a real failure, refcnt equals the number of references, no deadlock. Five seeded defects of the model (no pop from the expiry list, no parking on a pending recycle, no item mutex, early recycler signal, sticky failure) are each detected; seven situations (parked acquirer, demoted second recycler, move-out, expiry of an object, retry after cool-down, skip inside cool-down, failed caller receiving the object another constructor made) are shown reachable. Recorded executions of the real ObjectCache<int,Val*> (random programs of acquire/ref_acquire/borrow and release/ref_release/~Borrow with recycle and move-out, constructors that succeed / fail / yield / sleep, cool-downs 0..30 ms, lifespans 0..15 ms with the real 1 ms expiry timer, optional size limit, 2-4 threads on 1-3 vCPUs) are validated by TLC against the abstract cache (Trace_ObjectCacheA.tla): every acquire returns the one live object cached for the key, constructor callbacks of a key never overlap and start only when the key has no cached object, every destructor call is for an object that left the cache with no reference (evicted after its lifespan, recycled, moved out, cache destroyed), a recycling release returns only after all other holders released, null only after an own failed constructor or inside the cool-down of a real failure, borrowed objects stay intact while held.',
    note='TLC results hold for the stated populations and clock ranges; the container spinlock, photon::mutex, semaphore and condition_variable are taken as atomic primitives (their own properties are C01-C03). Conformance samples schedules; time clauses (lifespan, cool-down) are judged with photon::now as read by the harness around the calls with 1 ms slack, so an early expiry or a sticky failure smaller than that is not seen. A second recycling release issued while one is pending is an ordinary release in the code (expirecontainer.cpp:129) and in both specifications. ObjectCacheV2 (objectcachev2.h) is covered by a model only (spec/ObjectCacheV2.tla: box never erased while referenced, one constructor per key, cool-down, rc = number of references, no deadlock), under the stated assumption that no thread is stalled for a whole lifespan between Box::release() and the end of ~Borrow; without it TLC shows ~Borrow reading a box the reclaimer already erased (recorded in the evidence, not reproduced on the real code). No sanitizer: use-after-free through a borrowed pointer is seen through the destructor ledger and a magic word in the object.',
    technique='TLA+ critical-section model checked exhaustively by TLC (with broken variants and reachability witnesses); TLC trace validation (linearizability against an abstract cache) of executions recorded from the real ObjectCache',
    design='3/C19')

MC_Q = [('MC_ObjectCache', 'MC_ObjectCache_quick.cfg', 1500)]
MC_T = MC_Q + [('MC_ObjectCache', 'MC_ObjectCache_limit.cfg', 1800), ('MC_ObjectCache', 'MC_ObjectCache_clock.cfg', 1800),
               ('MC_ObjectCache', 'MC_ObjectCache_t2k2a2.cfg', 2400), ('MC_ObjectCache', 'MC_ObjectCache_t3k1a2.cfg', 3000)]
MC_V2_Q = [('MC_ObjectCacheV2', 'MC_ObjectCacheV2_quick.cfg', 1800)]
MC_V2_T = MC_V2_Q + [('MC_ObjectCacheV2', 'MC_ObjectCacheV2_thorough.cfg', 3000),
                     ('MC_ObjectCacheV2', 'MC_ObjectCacheV2_fixed.cfg', 1800)]    # proposed repair, no stall assumption
BUGS = ['nopop', 'nopark', 'nomtx', 'early', 'sticky']
WITNESSES = ['Parked', 'Retry', 'Skip', 'Race116', 'Demoted', 'MovedOut', 'Expired']
MODES_Q = [('oc', 110), ('oclimit', 40)]
MODES_T = [('oc', 1600), ('oclimit', 500)]


def _expected_violations(ctx):
    """broken variants must be caught, witnesses must be reachable; both are TLC runs that stop at the first violation"""
    jobs = [('bug', b, 'MC_ObjectCache', f'MC_ObjectCache_bug_{b}.cfg') for b in BUGS] + \
           [('witness', w, 'MC_ObjectCache', f'MC_ObjectCache_w_{w}.cfg') for w in WITNESSES] + \
           [('bug', 'v2-nocreatelock', 'MC_ObjectCacheV2', 'MC_ObjectCacheV2_bug.cfg'),
            ('doc', 'v2-asis', 'MC_ObjectCacheV2', 'MC_ObjectCacheV2_asis.cfg')]

    def one(job):
        kind, name, mod, cfg = job
        r = ctx.tlc(mod, cfg, workers=2, timeout=1500, xmx='3g')
        return kind, name, r
    caught, reached = {}, {}
    with ThreadPoolExecutor(max_workers=4) as ex:
        for kind, name, r in ex.map(one, jobs):
            if r['timeout'] or r['error'] or r['deadlock']:
                raise vtlib.InfraError(f'TLC failed on the {kind} configuration {name} (see {r["log"]})')
            if kind == 'doc':
                # ObjectCacheV2 WITHOUT the stall assumption (StallFree = FALSE): the counterexample documents the suspected
                # defect S-C19-V2 (~Borrow tests box->rc after giving its reference up); not reproduced on the real code
                # (needs a stall of a whole lifespan between two adjacent statements), so it is recorded, not judged.
                ctx.extra['objectcachev2_without_stall_assumption'] = {
                    'violated': r['inv_violated'][:1], 'cfg': 'MC_ObjectCacheV2_asis.cfg', 'log': r['log'],
                    'meaning': 'model-level counterexample only: ~Borrow reads rc of / re-links a box the reclaimer erased'}
                continue
            if kind == 'bug':
                caught[name] = r['inv_violated'][:1]
                if not r['inv_violated']:
                    raise vtlib.InfraError(f'ObjectCache.tla: the seeded defect "{name}" is not detected (vacuous model), see {r["log"]}')
            else:
                reached[name] = bool(r['inv_violated'])
                if not r['inv_violated']:
                    raise vtlib.InfraError(f'ObjectCache.tla: the situation "{name}" is not reachable (vacuous model), see {r["log"]}')
    ctx.extra['broken_variants_detected'] = caught
    ctx.extra['witness_situations_reached'] = reached


def run(ctx):
    ctx.samples.append({'constants': open(f'{vtlib.SPEC}/MC_ObjectCache_quick.cfg').read()})
    if ctx.tier != 'quick':
        ctx.samples.append({'constants_v2': open(f'{vtlib.SPEC}/MC_ObjectCacheV2_thorough.cfg').read()})
    if not os.environ.get('VERIF_SKIP_MC'):
        with ThreadPoolExecutor(max_workers=1) as bg:
            fut = bg.submit(_expected_violations, ctx)
            runs = MC_Q if ctx.tier == 'quick' else (MC_T + MC_V2_T)     # ObjectCacheV2: thorough tier only
            ok = synccheck.mc_all(ctx, [(m, c, to, {'workers': 8}) for m, c, to in runs])
            fut.result()
        if not ok:
            return ctx.finish()
    ctx.build_lib()
    synccheck.run_modes(ctx, MODES_Q if ctx.tier == 'quick' else MODES_T, 'Trace_ObjectCacheA', 'Trace_ObjectCacheA.cfg',
                        harness='h_objcache', vcpus=3, threads=4, ops=5)
    ctx.assumptions = ['sequential consistency in the specification',
                       'photon spinlock / mutex / semaphore / condition_variable behave as atomic primitives (C01-C03)',
                       'kernel / OS scheduling picks the interleavings that are sampled',
                       'ObjectCacheV2 model only: no thread is stalled for a whole lifespan between Box::release() and the end of ~Borrow (StallFree)']
    return ctx.finish()


def replay(ctx, path):
    name = os.path.basename(path)
    if name.startswith('mc_') and name.endswith('.txt'):      # a counterexample of a specification: model-check that configuration again
        cfg = name[3:-4]
        mod = 'MC_ObjectCacheV2' if 'V2' in cfg else 'MC_ObjectCache'
        ok = synccheck.mc_all(ctx, [(mod, cfg, 3000)])
        print(f'model-checked {mod}/{cfg} again: {"no violation" if ok else "violation"}')
        return 0 if ok else 1
    return synccheck.replay(ctx, 'Trace_ObjectCacheA', 'Trace_ObjectCacheA.cfg', path)
