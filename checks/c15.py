"""C15 range split: RangeSplit.tla (transcription vs. Tiles reference, exhaustive scope) +
h_rangesplit (real code, same scope + seeded random 62-bit values) judged by Trace_RangeSplit.tla."""
import vtlib
from checks import datacheck

META = dict(
   text='TLC exhausts the transcribed init()/all_parts()/aligned_parts() step machine against the declarative tiling reference for every (geometry, offset, length) in a small scope (fixed 1..5, power-of-two 1..8, all key-point sets over 0..5; thorough: larger); the real range_split classes are executed on the same scope plus seeded random offsets up to 2^62 and every recorded case is judged by the reference operators in a trace specification.',
   note='TLC result holds for the stated scope; larger values only through seeded random cases. offset+length overflow near 2^64 is outside the statement. Harness is compiled from /repo headers with ASan/UBSan; a sanitizer report is a Fatal event that the specification cannot explain.',
   technique='TLA+ transcription + TLC exhaustive small-scope equivalence with reference; trace validation of real outputs (TLC) per case',
   design='3/C15')

def run(ctx):
    t = ctx.tier
    r = ctx.mc('MC_RangeSplit', f'MC_RangeSplit_{t}.cfg', timeout=900)
    if r['inv_violated'] or r['rc'] != 0:
        rp = ctx.save_replay('mc_counterexample.txt', r['out'][-6000:])
        ctx.violation(f'specification RangeSplit violates {r["inv_violated"]} (transcription no longer matches reference)', rp)
        return ctx.finish()
    h = ctx.build_harness('h_rangesplit')
    trace = f'{ctx.out}/rangesplit.ndjson'
    ctx.run_harness(h, ['--out', trace, '--seed', ctx.seed, '--tier', t], ok_rcs=(0, 3))
    ok, n = datacheck.judge(ctx, 'Trace_RangeSplit', 'Trace_RangeSplit.cfg', trace, what='split')
    rows = vtlib.read_ndjson(trace)
    ctx.samples = [{'constants': open(f'{vtlib.SPEC}/MC_RangeSplit_{t}.cfg').read()}, rows[7], rows[len(rows)//2], rows[-1]]
    ctx.extra.update({'cases_executed_on_real_code': n, 'cases_agreeing_with_reference': ok, 'exhaustive': True,
                      'explanation': 'states = iterator steps of every (geometry, offset, length) in scope; '
                                     'traces = cases executed on the real range_split classes and judged by the reference'})
    ctx.assumptions = ['offset+length < 2^64 (the code does not check overflow; the property does not cover the top of the range)',
                       'random large values are logged translated by a multiple of the interval (equivariance of the split)']
    return ctx.finish()

def replay(ctx, path):
    ok, n = datacheck.judge(ctx, 'Trace_RangeSplit', 'Trace_RangeSplit.cfg', path, what='split')
    return 1 if ctx.violations else 0
