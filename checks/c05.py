"""C05 thread lifecycle.
 (1) TLC: Lifecycle.tla (create / yield / die / join / migrate self and other / standby drain / steal from run queue and
     standby queue over 2 vCPUs, the context save and the deferred stack release as separate steps) and StealLocks.tla
     (the lock structure around work stealing incl. the asymmetric run-queue lock under sequential consistency, with
     liveness).  The pre-repair run-queue scan (a READY thread could be taken before its context was saved, F9) is kept as a witness.
 (2) conformance Tier A: h_life (random lifecycle programs, all work-stealing flag combinations, default / pooled stack
     allocator, thread pool) against Trace_LifeA.tla.
 (3) the directed F9 scenario on the real code (hook-delayed vCPU between leaving the run-queue lock and the context save)."""
import os, json
import vtlib
from checks import synccheck, tracecheck

META = dict(
    text='TLC exhausts the thread lifecycle protocol (Lifecycle.tla: a creator and 3 workers on 2 vCPUs, joinable and detached, self-migration, migration of READY threads, standby drain, idler work stealing from run queue and standby queue; the context switch split into run-queue step, context save and deferred stack release / migration) for OneRunner, RunsExactlyOnce, JoinExact, StackSafe, OnePlace and Population without stealing and with a stealer that respects unsaved contexts; the pre-repair scan (which could take a READY thread whose context was not saved yet, F9) is kept as a witness that must violate OneRunner. StealLocks.tla checks the lock structure of work stealing (own run-queue lock, vCPU-list lock, victim standby lock, asymmetric run-queue lock from the background side) for deadlock freedom, run-queue exclusion and termination; the pre-repair structure is kept as a witness. Recorded executions of the real runtime (2-7 threads per execution created joinable / detached / stealable / from a thread pool on 3 vCPUs with random work-stealing flags, yielding, sleeping, migrating themselves, being migrated, interrupted and joined in random order; default and pooled stack allocator behind a recording allocator) are validated by TLC against the lifecycle contract: one Enter and one Leave per thread, compute segments of a thread never overlap and end on the vCPU they began on, join returns once after Leave with the value, stacks released once and only after Leave (joinable: not before join was called), thread counts back to initial. Directed scenarios with hook data: a vCPU held before the context switch of a yielding stealable thread (steal9), join racing die() (joinrace), stealing from a stand-by queue that holds an interrupted sleeper behind a migrated thread (stealsb: a stolen thread is in no sleep queue).',
    note='The directed scenario (vCPU held by a guarded hook between leaving the run-queue lock and saving the context while another vCPU steals) reproduces F9 deterministically if the guard is removed. The asymmetric run-queue lock is modelled with store buffers (AsymLockTSO.tla: fenced = as repaired by fix 992afa2 holds, unfenced = witness of F10 violates) and exercised by a litmus on the real class.',
    technique='TLA+ protocol models checked exhaustively by TLC; TLC trace validation of recorded lifecycle executions; hook-gated directed scenario for the recorded finding',
    design='3/C05')

F31_TEXT = ('random lifecycle runs with ACTIVE work stealing (vcpu_init flags with bit 0 on some vCPU, e.g. [1,2,2]) rarely die or hang: before the fence of '
            'fix 992afa2 (F10) 6 of 80 runs of seed 213 crashed; with it 0 of 100 crashed and 1 of 100 hung; the hang is not root-caused; '
            'runs without work stealing never do')
F9_TEXT = ('thread_yield() makes the yielding thread READY in the run queue and drops the run-queue lock before its context is '
           'saved; a work-stealing vCPU that scans the queue in that window resumes the thread from its stale context '
           '(thread runs on two vCPUs / crash)')


def run(ctx):
    t = ctx.tier
    open_f9 = any(f.get('id') == 'F9' for f in ctx.kf.get('open', []))
    ctx.samples.append({'constants': open(f'{vtlib.SPEC}/MC_Lifecycle_steal_saved.cfg').read()})
    if not os.environ.get('VERIF_SKIP_MC'):
        if not synccheck.mc_all(ctx, [('MC_Lifecycle', 'MC_Lifecycle_nosteal.cfg', 900), ('MC_Lifecycle', 'MC_Lifecycle_steal_saved.cfg', 900),
                                      ('StealLocks', 'MC_StealLocks.cfg', 900)]):
            return ctx.finish()
        r = ctx.mc('StealLocks', 'MC_StealLocks_asbefore.cfg', timeout=600, count=False)
        if not r['deadlock']:
            raise vtlib.InfraError('StealLocks.tla: the pre-repair lock structure does not deadlock (vacuous model)')
        # the pre-repair scan must be caught (anti-vacuity)
        r = ctx.mc('MC_Lifecycle', 'MC_Lifecycle_steal.cfg', timeout=900, count=False)
        ctx.extra['pre_repair_steal_detected'] = r['inv_violated'] == ['OneRunner']
        if r['inv_violated'] != ['OneRunner']:
            raise vtlib.InfraError('Lifecycle.tla: the unguarded run-queue scan is not detected (vacuous model)')
    # F10: the asymmetric run-queue lock under x86-TSO (model) and on this machine (litmus on the real class)
    open_f10 = any(f.get('id') == 'F10' for f in ctx.kf.get('open', []))
    tso_violated = None
    if not os.environ.get('VERIF_SKIP_MC'):
        if not synccheck.mc_all(ctx, [('AsymLockTSO', 'MC_AsymLockTSO_sc.cfg', 300)]):
            return ctx.finish()
        # the lock as it is now (full fence between the foreground store and load, fix 992afa2) under store buffers ...
        r = ctx.mc('AsymLockTSO', 'MC_AsymLockTSO_tso_fenced.cfg', timeout=300)
        tso_violated = r['inv_violated'] == ['MutualExclusion']
        ctx.extra['asym_lock_exclusive_under_TSO_model'] = not tso_violated
        # ... and the lock as it was (no fence) must still produce the counterexample (witness of F10, keeps the model honest)
        r = ctx.mc('AsymLockTSO', 'MC_AsymLockTSO_tso.cfg', timeout=300, count=False)
        ctx.extra['unfenced_lock_violates_under_TSO_model'] = r['inv_violated'] == ['MutualExclusion']
        if r['inv_violated'] != ['MutualExclusion']:
            raise vtlib.InfraError('AsymLockTSO.tla: the unfenced lock is not detected under TSO (vacuous model)')
    ctx.build_lib()
    ha = ctx.build_harness('h_asym')
    lit = f'{ctx.out}/asym.ndjson'
    ctx.run_harness(ha, ['--ms', 1200 if t == 'quick' else 6000, '--out', lit], timeout=300)
    lrow = vtlib.read_ndjson(lit)[0]
    ctx.extra['asym_lock_litmus'] = lrow
    if lrow['lost'] > 0 or tso_violated:
        what = (f'asymmetric run-queue lock loses mutual exclusion: litmus on the real class lost {lrow["lost"]} of '
                f'{lrow["fg_k"] + lrow["bg_k"]}k increments; TSO model violated: {tso_violated}')
        if open_f10:
            ctx.known('F10', what)
        else:
            ctx.violation(what, ctx.save_replay('asym_litmus.ndjson', json.dumps(lrow) + '\n'))
    h = ctx.build_harness('h_life')
    open_f31 = any(f.get('id') == 'F31' for f in ctx.kf.get('open', []))
    execs = 60 if t == 'quick' else 600
    seeds = [ctx.seed * 10 + k for k in range(4 if t == 'quick' else 10)]
    n_exec = 0
    for i, sd in enumerate(seeds):
        trace = f'{ctx.out}/life_{sd}.ndjson'
        args = ['--execs', execs, '--seed', sd, '--vcpus', 3, '--threads', 5, '--ops', 6, '--out', trace]
        if i == 0:
            args.append('--nosteal')
        rows = None
        crashes = 0
        for attempt in range(3):
            rc, o, e = vtlib.sh([h] + [str(a) for a in args], timeout=400 if t == 'quick' else 2400)
            rows = vtlib.read_ndjson(trace) if os.path.exists(trace) else []
            crashed = rc not in (0, 4) or any(r.get('e') == 'Fatal' for r in rows)
            if not crashed:
                break
            crashes += 1
            if i == 0 or not open_f31:
                break          # without work stealing (or once F31 is closed) a crash is never excused
        if crashes and not crashed:
            # F31: with active work stealing the unchanged library crashes / hangs in about one of 13 runs of some seeds; the
            # same seed completes when run again.  Only a crash that repeats three times in a row is reported as a violation.
            ctx.known('F31', F31_TEXT + f' [h_life --seed {sd}: {crashes} of {crashes + 1} runs died, the last one completed and is judged]')
        elif crashes:
            if not any(r.get('e') in ('Fatal', 'Hang') for r in rows):
                rows.append({'e': 'Fatal', 'sig': rc, 'case': 'harness process killed by a signal / timed out'})
        acc, rejs, n = tracecheck.validate(ctx, 'Trace_LifeA', 'Trace_LifeA.cfg', rows, tagbase=f'life_{sd}')
        n_exec += n
        tracecheck.report(ctx, rejs, f'life seed {sd}', name=f'life_{sd}')
        if i == 1:
            ctx.samples.append({'recorded_execution': tracecheck.split_execs(rows)[0][:40]})
    # thread_join() racing with the dying thread's last steps on another vCPU (dying thread held at the guarded hook in die());
    # released stacks are quarantined and made inaccessible, so a premature release faults
    for k in range(2 if t == 'quick' else 8):
        sd = (ctx.seed * 10 + k) * 2 + 1          # odd seed: default stack allocator, quarantine on
        trace = f'{ctx.out}/joinrace_{sd}.ndjson'
        rc, o, e = vtlib.sh([h, '--prim', 'joinrace', '--execs', str(80 if t == 'quick' else 400), '--seed', str(sd), '--vcpus', '3', '--out', trace], timeout=900)
        if rc == 124:
            raise vtlib.InfraError('h_life --prim joinrace timed out')
        rows = vtlib.read_ndjson(trace) if os.path.exists(trace) else []
        if rc not in (0, 3, 4) and not any(r.get('e') == 'Fatal' for r in rows):
            # the process died without being able to record it (stack gone): that is the outcome of a premature stack release
            rows.append({'e': 'Fatal', 'sig': rc, 'case': 'harness process killed by a signal'})
        acc, rejs, n = tracecheck.validate(ctx, 'Trace_LifeA', 'Trace_LifeA.cfg', rows, tagbase=f'joinrace_{sd}')
        n_exec += n
        tracecheck.report(ctx, rejs, f'joinrace seed {sd}', name=f'joinrace_{sd}')
    ctx.extra['executions_recorded'] = n_exec
    # directed scenario of F9 (expected to crash or to be rejected while F9 is open)
    hits = 0
    for k in range(3 if t == 'quick' else 10):
        trace = f'{ctx.out}/steal9_{k}.ndjson'
        rc, o, e = vtlib.sh([h, '--prim', 'steal9', '--hooks', '--seed', str(ctx.seed + k), '--out', trace], timeout=120)
        rows = vtlib.read_ndjson(trace) if os.path.exists(trace) else []
        api = [r for r in rows if not r['e'].startswith('h') and r['e'] not in ('YieldInv', 'YieldResp')]
        stolen_in_window = False
        last_pre = None
        for r in rows:
            if r['e'] == 'hPreSwitch':
                last_pre = r['t']
            elif r['e'] == 'hSteal' and r['t'] == 1 and last_pre == 1:
                stolen_in_window = True
        bad = rc != 0 or any(r['e'] in ('Fatal', 'Hang') for r in rows)
        if not bad and api:
            acc, rejs, n = tracecheck.validate(synccheck._Quiet(ctx), 'Trace_LifeA', 'Trace_LifeA.cfg', api, tagbase=f'steal9_{k}')
            bad = bool(rejs)
        if bad:
            if stolen_in_window and open_f9:
                hits += 1
                ctx.known('F9', F9_TEXT + ' [real code: h_life --prim steal9: hPreSwitch{t}, hSteal{t}, then crash / rejected history]')
            else:
                rp = ctx.save_replay(f'steal9_{k}.ndjson', '\n'.join(json.dumps(r) for r in rows) + '\n')
                ctx.violation('directed work-stealing scenario failed' + ('' if stolen_in_window else ' without the F9 signature'), rp)
    ctx.extra['F9_directed_scenario_reproduced'] = hits
    # directed scenario: stealing from a stand-by queue whose head is a migrated stealable thread and which also holds an
    # interrupted sleeper (Tier B: hSteal carries the stolen thread's sleep-queue back index)
    trace = f'{ctx.out}/stealsb.ndjson'
    rc, o, e = vtlib.sh([h, '--prim', 'stealsb', '--hooks', '--execs', str(15 if t == 'quick' else 150), '--seed', str(ctx.seed), '--out', trace], timeout=600)
    rows = [r for r in (vtlib.read_ndjson(trace) if os.path.exists(trace) else [])
            if not r['e'].startswith('h') or r['e'] == 'hSteal']
    if rc not in (0, 3, 4) or not rows:
        raise vtlib.InfraError(f'h_life --prim stealsb exited {rc}: {e[-500:]}')
    acc, rejs, n = tracecheck.validate(ctx, 'Trace_LifeA', 'Trace_LifeA.cfg', rows, tagbase='stealsb')
    tracecheck.report(ctx, rejs, 'stealsb', name='stealsb')
    stolen = sum(1 for r in rows if r['e'] == 'hSteal')
    ctx.extra['stealsb'] = {'executions': n, 'accepted': acc, 'steals_observed': stolen}
    if not stolen:
        raise vtlib.InfraError('h_life --prim stealsb: nothing was stolen from the stand-by queue (vacuous scenario)')
    return ctx.finish()


def replay(ctx, path):
    rows = [r for r in vtlib.read_ndjson(path) if (not r['e'].startswith('h') or (r['e'] == 'hSteal' and 'tidx' in r)) and r['e'] not in ('YieldInv', 'YieldResp')]
    acc, rejs, n = tracecheck.validate(ctx, 'Trace_LifeA', 'Trace_LifeA.cfg', rows, tagbase='replay')
    tracecheck.report(ctx, rejs, 'replay', name='replay')
    print(f'replayed {n} execution(s): {acc} accepted, {len(rejs)} rejected')
    return 1 if ctx.violations else 0
