"""Trace validation of recorded executions (concurrent properties).

A harness writes one ndjson file holding many executions, each starting with a Reset event.  The trace
specification (spec/Trace_*.tla) consumes the events (with silent internal steps where the history leaves
a choice) and is accepted when `INVARIANT NotAccepted` is violated.  On a rejection the specification's
progress register (`<<"MAXL", k, n>>` printed by POSTCONDITION) gives the first event no behaviour of the
specification explains; the execution containing it is isolated, re-validated alone (a rejection is reported
only if it repeats) and removed, and the rest of the chunk is validated again, so one bad execution does not
leave the others unexamined."""
import json, os, re
from concurrent.futures import ThreadPoolExecutor
import vtlib


def split_execs(rows):
    ex, cur = [], []
    for r in rows:
        if r.get('e') == 'Reset' and cur:
            ex.append(cur); cur = []
        cur.append(r)
    if cur:
        ex.append(cur)
    return ex


def _run(ctx, module, cfg, rows, tag, timeout, extra_env=None):
    p = f'{ctx.out}/{tag}.ndjson'
    vtlib.write_ndjson(p, rows)
    r = ctx.trace_check(module, cfg, p, timeout=timeout, deque=True, xmx='3g', tag=tag, extra_env=extra_env)
    m = re.search(r'<<"MAXL", (\d+), (\d+)>>', r['out'])
    r['maxl'] = int(m.group(1)) if m else None
    if r['other_inv']:
        # an invariant of the specification itself was violated on the recorded execution: treat as a rejection at the
        # depth TLC reports (the violating state is the last one of the printed behaviour)
        r['accepted'] = False
    os.unlink(p)
    return r


def validate(ctx, module, cfg, trace, chunk_events=2500, par=8, timeout=900, max_rej=6, extra_env=None, tagbase=None):
    """returns (n_accepted_executions, rejections) ; rejections = list of dict(exec=rows, at=index in exec, event=row, inv=[...])"""
    rows = vtlib.read_ndjson(trace) if isinstance(trace, str) else trace
    execs = split_execs(rows)
    tagbase = tagbase or module
    chunks, cur, n = [], [], 0
    for e in execs:
        if cur and n + len(e) > chunk_events:
            chunks.append(cur); cur = []; n = 0
        cur.append(e); n += len(e)
    if cur:
        chunks.append(cur)

    def work(ci):
        chunk = list(chunks[ci])
        acc, rej = 0, []
        while chunk:
            flat = [r for e in chunk for r in e]
            r = _run(ctx, module, cfg, flat, f'{tagbase}_c{ci}_{len(rej)}', timeout, extra_env)
            if r['accepted']:
                acc += len(chunk)
                break
            k = r['maxl']
            if r['other_inv'] and not k:
                k = r['depth'] or 1
            if k is None:
                raise vtlib.InfraError(f'{module}: rejected without progress information, see {r["log"]}')
            # locate the execution containing event k (1-based; k = first unexplained event)
            pos, bad = 0, None
            for i, e in enumerate(chunk):
                if pos + len(e) >= max(k, 1):
                    bad = i; break
                pos += len(e)
            if bad is None:
                bad = len(chunk) - 1
            e = chunk[bad]
            # re-validate alone: the rejection must repeat
            r1 = _run(ctx, module, cfg, e, f'{tagbase}_c{ci}_{len(rej)}_solo', timeout, extra_env)
            if r1['accepted']:
                raise vtlib.InfraError(f'{module}: execution rejected in a batch but accepted alone (trace spec is not '
                                       f'execution-local?), see {r["log"]}')
            k1 = r1['maxl'] or (r1['depth'] or 1)
            k1 = min(max(k1, 1), len(e))
            rej.append({'exec': e, 'at': k1, 'event': e[k1 - 1], 'inv': r1['other_inv'], 'log': r1['log']})
            acc += bad            # executions before the bad one were explained
            chunk = chunk[bad + 1:]
            if len(rej) >= max_rej:
                break
        return acc, rej

    acc_total, rejs = 0, []
    with ThreadPoolExecutor(max_workers=par) as ex:
        for acc, rej in ex.map(work, range(len(chunks))):
            acc_total += acc
            rejs += rej
    ctx.traces_ok += acc_total
    return acc_total, rejs, len(execs)


def report(ctx, rejs, what, classify=None, name='exec'):
    """turn rejections into VIOLATION lines (or known-finding hits).  classify(rej) -> (fid, text) or None"""
    for i, rj in enumerate(rejs):
        fid = classify(rj) if classify else None
        if fid:
            ctx.known(fid[0], fid[1])
            continue
        ev = rj['event']
        lines = [json.dumps(r, separators=(',', ':')) for r in rj['exec']]
        rp = ctx.save_replay(f'{name}_{len(ctx.violations)}.ndjson', '\n'.join(lines) + '\n')
        inv = f' invariant {rj["inv"]}' if rj['inv'] else ''
        ctx.violation(f'{what}: recorded execution is not a behaviour of the specification{inv}; first unexplained event '
                      f'#{rj["at"]} {json.dumps(ev)[:200]}', rp)
