"""C09 Go-style channel (thread/go.h).
 (1) TLC: GoChannel.tla - protocol model of the unbuffered (mutex + 2 cvs + slot; one action per statement block between two
     blocking points) and the buffered implementation (atomic FIFO ring + waiter counters + semaphores; one action per atomic
     access), guards as written.  KF = the set of recorded deviations modelled as written; KF = {} is the repaired protocol.
     The as-written configurations must reproduce the recorded findings (anti-vacuity + rediscovery), the repaired ones and the
     as-written ones restricted to the invariants not touched by a finding must pass.
 (2) conformance, Tier A: harness/h_gochan (directed arrival orders on one vCPU, random programs on 1-3 vCPUs with bounded delays
     at the header's shared reads, gated two-vCPU scenarios from TLC counterexamples) judged by Trace_GoChannelA.tla (abstract
     channel: delivery ledger + linearizability + Settle conditions).  Every execution is judged (SpecAll); an execution the
     default specification rejects is re-judged with ONE known-finding switch on and attributed to that finding if it is
     accepted then; it counts as KNOWN-FINDING only if known-findings.json lists the finding as open for C09."""
import json, os, re, time
from concurrent.futures import ThreadPoolExecutor
import vtlib
from checks import tracecheck

META = dict(
    text='TLC exhausts a protocol model of photon::channel<T> transcribed from thread/go.h - unbuffered: every statement block between two blocking points under m_unbuf_mutex is one action, both condition variables are FIFO queues, close() flips m_closed outside the mutex; buffered: every atomic access (m_closed, read_available, push, pop, the two waiter counters, semaphore signal/wait) is one action over an atomic FIFO ring of the real (rounded) size - for 2 senders x 2 receivers x <=2 calls each, call kinds {no timeout, finite timeout, try_}, optional close(), capacity 0, 1, 2, and checks DeliveredExactlyOnce (values reported sent = values received + values still in slot/ring, no duplicate, nothing that was never sent), PerSenderOrder, FalseOnlyOnCloseOrTimeout, ReleasedWhenPartnerExists (at rest: no blocked sender with a blocked receiver or a taken value on an open unbuffered channel, no blocked receiver with an item, no blocked sender with a free slot), ReleasedOnClose, DrainAfterClose. The guards are modelled as written; each recorded deviation is a named switch (KF) whose as-written setting must reproduce its counterexample and whose repaired setting must pass. Recorded executions of the real channel are judged by TLC against the abstract channel (bag of values in the channel, every call effective at one instant between invocation and response): every sequence of <=4 calls over {send, send(150us), recv, recv(150us), try_send, try_recv, close} arriving in that order on one vCPU (each call its own thread; with and without letting woken threads run between arrivals) for capacity 0,1,2; seeded random programs of 2-5 threads on 1-3 vCPUs (capacity 0-3, timeouts zero/short/none, try_*, close, bounded random delays at the shared reads of go.h); two-vCPU scenarios that hold one thread at a shared read while the partner call completes. Demanded: a value reported sent is received exactly once or found by the final drain, per-sender order, false only after close() or an elapsed finite timeout, recv reports closed only when closed and empty at one instant, threads found asleep are consistent with the abstract state (partner / item / free slot / close() releases), size() at rest equals the ledger.',
    note='TLC results hold for the stated populations (two senders, two receivers, <= 2 calls each). Conformance samples schedules: exhaustively for arrival orders of <= 4 single-call threads on one vCPU, randomly beyond that; races between vCPUs are reached only through random delays / gates at Timeout::expired() and at the acquire loads of go.h (injected by macro while the unchanged header is compiled), not inside the ring or the semaphores. "Asleep" is the thread state SLEEPING with no runnable thread (one vCPU) or at two inspections 10 ms apart (several vCPUs). The MPMC ring is taken as an atomic FIFO (C07), mutex / condition variable / semaphore as their abstract objects (C01-C03). select() and the iterator are thin wrappers over try_*/recv and are not exercised separately.',
    technique='TLA+ protocol model checked exhaustively by TLC with as-written / repaired switches; TLC trace validation (delivery ledger + linearizability against the abstract channel, all executions judged in one run) of executions recorded from the real channel',
    design='3/C09')

SPEC, CFG_ALL, CFG_ONE = 'Trace_GoChannelA', 'Trace_GoChannelA_all.cfg', 'Trace_GoChannelA.cfg'

# finding id -> (KF switch of the trace spec, applicability, what it is)
FINDINGS = {
    'F3': dict(env='KF_F3', when=lambda rs: rs['cap'] == 0,
               what='unbuffered channel with more than one send/try_send in flight or a value left in the hand-off slot: the wait-for-receiver guard (go.h:368) lets a sender through while the slot is occupied and all senders share one slot / m_handoff_ready / m_unbuf_send_cv (go.h:387-405): a value reported sent is overwritten or deleted and never received, or a sender / receiver stays blocked although its partner exists'),
    'LW': dict(env='KF_LW', when=lambda rs: rs['cap'] > 0 and rs['vcpus'] > 1,
               what='buffered channel, several vCPUs: a sender (receiver) that found the ring full (empty) registers in m_senders_waiting (m_receivers_waiting) only afterwards (go.h:277-284 / 312-318); a pop (push) in between reads the counter as 0 and does not signal: the caller sleeps although a free slot (an item) exists'),
    'CL': dict(env='KF_CL', when=lambda rs: rs['cap'] > 0 and rs['vcpus'] > 1,
               what='buffered channel, several vCPUs: close() reads the waiter counters once (go.h:155-158); a caller that passed its m_closed test (go.h:261 / 308) and registers afterwards is not woken and sleeps on a closed channel'),
    'DR': dict(env='KF_DR', when=lambda rs: rs['cap'] > 0 and rs['vcpus'] > 1,
               what='buffered channel, several vCPUs: buffered_recv reports "closed" after ONE failed pop (go.h:298-309) although an item was pushed between that pop and its m_closed test: recv() returns false while a value reported sent is still buffered'),
}
# When a finding has been repaired in /repo by a "fix:" commit, remove its id here: its as-written model-checking run and its
# classifier switch are then no longer used, so the failure is reported as a plain VIOLATION if it ever returns.
# (VERIF_C09_FIXED=F3,LW,... does the same for one run: used to check a patched scratch copy of the repository.)
ACTIVE = []      # F3 (fix: 54265d5), LW / CL / DR (fix: ddde88c) are repaired; the as-written configurations remain as witnesses in spec/
# invariant of GoChannel.tla that each as-written deviation must violate
MC_EXPECT = {'F3': 'DeliveredExactlyOnce', 'LW': 'ReleasedWhenPartnerExists', 'CL': 'ReleasedOnClose', 'DR': 'DrainAfterClose'}


def _is_open(ctx, fid):
    if fid in [x.strip() for x in os.environ.get('VERIF_ASSUME_OPEN', '').split(',') if x.strip()]:
        return True          # experiments only (mutation self-test before the owner has decided about a finding)
    for e in ctx.kf.get('open', []):
        if e.get('property') == 'C09' and (e.get('id') == fid or e.get('kf') == fid or e.get('signature') == fid):
            return True
    return False


def judge_all(ctx, execs, tag, env=None, chunk_events=4000, par=8, timeout=1500):
    """execs: list of executions (lists of rows).  Returns list of booleans (accepted by the specification, with env)."""
    chunks, cur, n = [], [], 0
    for i, e in enumerate(execs):
        if cur and n + len(e) > chunk_events:
            chunks.append(cur); cur, n = [], 0
        cur.append(i); n += len(e)
    if cur:
        chunks.append(cur)
    verdict = [False] * len(execs)

    def work(ci):
        idx = chunks[ci]
        p = f'{ctx.out}/{tag}_{ci}.ndjson'
        vtlib.write_ndjson(p, [r for i in idx for r in execs[i]])
        e = {'TRACE': p}
        e.update(env or {})
        r = ctx.tlc(SPEC, CFG_ALL, workers=1, timeout=timeout, env=e, deque=True, xmx='3g', tag=f'{tag}_{ci}')
        if r['timeout']:
            raise vtlib.InfraError(f'trace validation timed out: {tag} chunk {ci}')
        m = re.search(r'"OKSET",\s*\{([^}]*)\}', r['out'])
        if r['rc'] != 0 or r['error'] or not m:
            raise vtlib.InfraError(f'trace validation failed: {tag} chunk {ci} rc={r["rc"]} see {r["log"]}\n' + r['out'][-1500:])
        ok = {int(x) for x in re.findall(r'\d+', m.group(1))}
        os.unlink(p)
        return [(i, (k + 1) in ok) for k, i in enumerate(idx)]
    with ThreadPoolExecutor(max_workers=par) as ex:
        for res in ex.map(work, range(len(chunks))):
            for i, v in res:
                verdict[i] = v
    return verdict


def _first_unexplained(ctx, e, tag):
    """one rejected execution alone, default specification, first event no behaviour explains"""
    p = f'{ctx.out}/{tag}.ndjson'
    vtlib.write_ndjson(p, e)
    r = ctx.trace_check(SPEC, CFG_ONE, p, timeout=600, deque=True, xmx='3g', tag=tag)
    m = re.search(r'<<"MAXL", (\d+), (\d+)>>', r['out'])
    k = min(max(int(m.group(1)) if m else 1, 1), len(e))
    return k, e[k - 1], r['accepted']


def judge_and_report(ctx, rows, name, chunk_events=4000, par=8):
    """judge every execution of rows; classify and report rejections.  Returns dict of counters."""
    execs = tracecheck.split_execs(rows)
    verdict = judge_all(ctx, execs, f'judge_{name}', chunk_events=chunk_events, par=par)
    rej = [i for i, v in enumerate(verdict) if not v]
    ctx.traces_ok += len(execs) - len(rej)
    stats = {'executions': len(execs), 'rejected': len(rej), 'by_finding': {}, 'by_mode': {}}
    for i, e in enumerate(execs):
        m = stats['by_mode'].setdefault(e[0].get('prim', '?'), {'executions': 0, 'rejected': 0})
        m['executions'] += 1
        m['rejected'] += 0 if verdict[i] else 1
    if not rej:
        return stats
    # which single known-finding switch explains a rejected execution?
    explained = {i: [] for i in rej}

    def with_switch(fids, among=None):
        cand = [i for i in (rej if among is None else among) if all(FINDINGS[f]['when'](execs[i][0]) for f in fids)]
        if not cand:
            return fids, [], []
        return fids, cand, judge_all(ctx, [execs[i] for i in cand], f'kf_{"_".join(fids)}_{name}', env={FINDINGS[f]['env']: '1' for f in fids}, par=4)
    with ThreadPoolExecutor(max_workers=4) as ex:
        for fids, cand, v in ex.map(with_switch, [(f,) for f in ACTIVE]):
            for i, ok in zip(cand, v):
                if ok:
                    explained[i].append(fids[0])
    # an execution of the buffered channel on several vCPUs may show more than one of the buffered findings
    multi = tuple(f for f in ('LW', 'CL', 'DR') if f in ACTIVE)
    left = [i for i in rej if not explained[i]]
    if len(multi) > 1 and left:
        fids, cand, v = with_switch(multi, left)
        for i, ok in zip(cand, v):
            if ok:
                explained[i].append('+'.join(fids))
    hits, unexplained = {}, []
    for i in rej:
        if len(explained[i]) >= 1:
            hits.setdefault(explained[i][0], []).append(i)
        else:
            unexplained.append(i)
    for fid, idx in hits.items():
        stats['by_finding'][fid] = len(idx)
        e = execs[min(idx, key=lambda i: (len(execs[i]), i))]       # the shortest one as the example
        rp = ctx.save_replay(f'{name}_{fid}.ndjson', ''.join(json.dumps(r, separators=(',', ':')) + '\n' for r in e))
        rs = e[0]
        pm = {}
        for i in idx:
            pm[execs[i][0].get('prim', '?')] = pm.get(execs[i][0].get('prim', '?'), 0) + 1
        ex = f'{len(idx)} of {len(execs)} recorded execution(s) {pm} are rejected by the channel specification and accepted only with the deviation {"+".join(FINDINGS[f]["env"] for f in fid.split("+"))}; first: mode={rs.get("prim")} cap={rs["cap"]} vcpus={rs["vcpus"]} {rs.get("seq", "")} mask={rs.get("mask")}'
        parts = fid.split('+')
        what = ' // '.join(FINDINGS[f]['what'] for f in parts)
        if all(_is_open(ctx, f) for f in parts):
            for f in parts:
                ctx.known(f, f'{FINDINGS[f]["what"]} [{ex}; example {rp}]')
        else:
            ctx.violation(f'{ex} :: {what} :: finding {fid} is not listed as open for C09 in known-findings.json', rp)
        if len(ctx.samples) < 8:
            ctx.samples.append({'finding': fid, 'rejected_execution': e[:24]})
    for n, i in enumerate(unexplained):
        e = execs[i]
        if n >= 5:
            ctx.violations.append((f'{name}: further unexplained execution', ''))
            continue
        k, ev, acc = _first_unexplained(ctx, e, f'solo_{name}_{n}')
        if acc:
            raise vtlib.InfraError(f'{name}: execution rejected in a batch but accepted alone (trace spec not execution-local?)')
        rp = ctx.save_replay(f'{name}_{len(ctx.violations)}.ndjson', ''.join(json.dumps(r, separators=(',', ':')) + '\n' for r in e))
        rs = e[0]
        ctx.violation(f'{name}: recorded execution (cap={rs.get("cap")} vcpus={rs.get("vcpus")} {rs.get("seq", "")}) is not a behaviour of the channel specification, '
                      f'with or without a known-finding switch; first unexplained event #{k} {json.dumps(ev)[:200]}', rp)
    stats['unexplained'] = len(unexplained)
    return stats


# ---------------------------------------------------------------------------------------------------- model checking
# (cfg, timeout, expectation): None = must pass; a finding id = the as-written deviation must violate MC_EXPECT[id];
# 'F3g' / 'F3t' = one half of the F3 patch alone must still fail
MC_Q = [('MC_GoChannel_u_aswritten.cfg', 900, 'F3'), ('MC_GoChannel_b_lw.cfg', 900, 'LW'), ('MC_GoChannel_b_cl.cfg', 900, 'CL'),
        ('MC_GoChannel_b_dr.cfg', 900, 'DR'), ('MC_GoChannel_u_quick.cfg', 1200, None), ('MC_GoChannel_b1_quick.cfg', 1200, None),
        ('MC_GoChannel_b1_aswritten_quick.cfg', 1200, None)]
MC_T = MC_Q[:4] + [('MC_GoChannel_u_thorough.cfg', 5400, None), ('MC_GoChannel_b1_thorough.cfg', 3000, None),
                   ('MC_GoChannel_b1x_thorough.cfg', 3000, None), ('MC_GoChannel_b2_quick.cfg', 3000, None), ('MC_GoChannel_b2_thorough.cfg', 3000, None),
                   ('MC_GoChannel_b1_aswritten_thorough.cfg', 3000, None),
                   ('MC_GoChannel_u_guardonly.cfg', 900, 'F3g'), ('MC_GoChannel_u_turnonly.cfg', 900, 'F3t')]


def mc_start(ctx, runs, pool):
    """the small as-written runs one after the other in one thread, the exhaustive ones side by side"""
    runs = [x for x in runs if x[2] is None or x[2][:2] in ACTIVE]
    small = [x for x in runs if x[2] is not None]
    big = [x for x in runs if x[2] is None]
    w = max(2, 12 // max(len(big), 1))
    heavy = {'MC_GoChannel_u_thorough.cfg': 6, 'MC_GoChannel_b1_aswritten_thorough.cfg': 3, 'MC_GoChannel_b1x_thorough.cfg': 3}
    res = {}

    def chain():
        for cfg, to, expect in small:
            res[cfg] = ctx.tlc('GoChannel', cfg, workers=2, timeout=to, xmx='4g')
    ch = pool.submit(chain)
    futs = [(cfg, expect, pool.submit(ctx.tlc, 'GoChannel', cfg, workers=heavy.get(cfg, w), timeout=to, xmx='6g')) for cfg, to, expect in big]

    class Later:
        def __init__(self, cfg): self.cfg = cfg
        def result(self):
            ch.result()
            return res[self.cfg]
    return futs + [(cfg, expect, Later(cfg)) for cfg, to, expect in small]


def mc_collect(ctx, futs):
    doc = {}
    for cfg, expect, f in futs:
        r = f.result()
        if r['timeout']:
            raise vtlib.InfraError(f'TLC timed out on GoChannel/{cfg} (see {r["log"]})')
        if r['error'] or r['rc'] not in (0, 12):
            raise vtlib.InfraError(f'TLC failed on GoChannel/{cfg} rc={r["rc"]} (see {r["log"]})\n' + r['out'][-1500:])
        ctx.mc_runs.append({k: r[k] for k in ('module', 'cfg', 'generated', 'distinct', 'depth', 'wall_s', 'rc')})
        if expect is None:
            ctx.states += r['distinct']; ctx.transitions += r['generated']
            if r['rc'] != 0:
                rp = ctx.save_replay(f'mc_{cfg}.txt', r['out'][-12000:])
                ctx.violation(f'specification GoChannel/{cfg} violates {r["inv_violated"] or "a property"}', rp)
            continue
        if expect in ('F3g', 'F3t'):        # half patches: each alone must still fail (the proposed patch is minimal)
            doc[expect] = {'cfg': cfg, 'violates': r['inv_violated']}
            if not r['inv_violated']:
                raise vtlib.InfraError(f'GoChannel/{cfg}: a half of the F3 patch is not detected as insufficient')
            continue
        want = MC_EXPECT[expect]
        doc[expect] = {'cfg': cfg, 'violates': r['inv_violated'], 'states': r['distinct']}
        if want not in r['inv_violated']:
            raise vtlib.InfraError(f'GoChannel/{cfg}: the as-written deviation {expect} no longer violates {want} (vacuous model?) see {r["log"]}')
        rp = ctx.save_replay(f'mc_{cfg}.txt', r['out'][-12000:])
        txt = f'GoChannel.tla as written ({cfg}) violates {want}: {FINDINGS[expect]["what"]}'
        if _is_open(ctx, expect):
            ctx.known(expect, txt + f' [TLC counterexample {rp}]')
        else:
            ctx.violation(txt + f' :: finding {expect} is not listed as open for C09 in known-findings.json', rp)
    ctx.extra['as_written_counterexamples'] = doc


def run(ctx):
    quick = ctx.tier == 'quick'
    t0 = time.time()
    T = {}
    ctx.samples.append({'constants': open(f'{vtlib.SPEC}/MC_GoChannel_u_quick.cfg' if quick else f'{vtlib.SPEC}/MC_GoChannel_u_thorough.cfg').read()})
    pool = ThreadPoolExecutor(max_workers=12)
    futs = [] if os.environ.get('VERIF_SKIP_MC') else mc_start(ctx, MC_Q if quick else MC_T, pool)
    ctx.build_lib()
    h = ctx.build_harness('h_gochan')
    T['built'] = round(time.time() - t0, 1)
    # (mode, executions, extra args)
    modes = [('dir', 1000, ['--masks', 'ends']), ('rand', 200, []), ('gate', 5, [])] if quick else \
            [('dir', 0, ['--masks', 'cap0all']), ('rand', 2000, []), ('gate', 25, [])]
    rows = []
    rcs = {}
    for mode, n, extra in modes:
        trace = f'{ctx.out}/{mode}.ndjson'
        rc, o, e = ctx.run_harness(h, ['--prim', mode, '--execs', n, '--seed', ctx.seed, '--vcpus', 3, '--threads', 5, '--ops', 5,
                                        '--out', trace] + extra, timeout=1500, ok_rcs=(0, 3, 4))
        if rc == 124:
            raise vtlib.InfraError(f'h_gochan --prim {mode} timed out')
        r = vtlib.read_ndjson(trace)
        if not r:
            raise vtlib.InfraError(f'h_gochan --prim {mode} recorded nothing')
        rcs[mode] = rc
        ex = tracecheck.split_execs(r)
        ctx.samples.append({'mode': mode, 'recorded_execution': ex[min(7, len(ex) - 1)][:30]})
        rows += r
    T['recorded'] = round(time.time() - t0, 1)
    st = judge_and_report(ctx, rows, 'run', chunk_events=4000 if quick else 8000, par=8 if quick else 10)
    st['harness_rc'] = rcs
    st['gates_held'] = sum(1 for r in rows if r.get('e') == 'Gate' and r.get('at') == 'released' and r.get('held'))
    ctx.extra['executions_recorded'] = st['executions']
    ctx.extra['conformance'] = st
    T['judged'] = round(time.time() - t0, 1)
    mc_collect(ctx, futs)
    T['model_checked'] = round(time.time() - t0, 1)
    ctx.extra['timing_s'] = T
    for fid in ACTIVE:
        if _is_open(ctx, fid) and not any(fid == k for k, _ in ctx.known_hits):
            print(f'NOTE property={ctx.pid} finding {fid} is listed as open but was not hit in this run', flush=True)
    ctx.assumptions = ['sequential consistency in the specification', 'the MPMC ring behaves as an atomic FIFO (C07); mutex, condition variable and semaphore as their abstract objects (C01-C03)',
                       'kernel / OS scheduling picks the multi-vCPU interleavings that are sampled']
    return ctx.finish()


def replay(ctx, path):
    rows = vtlib.read_ndjson(path)
    st = judge_and_report(ctx, rows, 'replay')
    print(f'replayed {st["executions"]} execution(s): {st["executions"] - st["rejected"]} accepted, {st["rejected"]} rejected {st["by_finding"]}')
    for fid, what in ctx.known_hits:
        print(f'KNOWN-FINDING: property={ctx.pid} {fid}: {what}')
    return 1 if ctx.violations else 0
