"""C01 mutex / spinlocks.
 (1) TLC: MutexCore (scheduler core + mutex protocol, every interleaving of critical sections for 3 threads on 2 vCPUs with
     timeouts, an external interrupter, the idler's expiry pass and the standby queue) and SpinLocks (spinlock / ticket /
     queued spinlock at atomic-operation granularity, with liveness).
 (2) conformance, Tier A: h_sync runs random lock / timed lock / try_lock / unlock programs with interrupts on the real
     primitives on 1-3 vCPUs (spinlocks: plain OS threads); every recorded execution must be a behaviour of the abstract
     lock (Trace_LockA.tla).
 (3) conformance, Tier B (when the library has the guarded hooks): the hook events of the same executions must be a
     behaviour of the critical-section level protocol specification (Trace_MutexB.tla)."""
import os
import vtlib
from checks import tracecheck

META = dict(
    text='TLC exhausts the mutex acquisition / hand-off protocol over the scheduler core (MutexCore: 2 vCPUs, 3 threads, deadlines 0/now+1/inf, external interrupter, idler expiry, standby queue; explicit spinlock steps; context save as its own step) for mutual exclusion, result-matches-ownership, failed-lock-not-queued, not-stuck and hand-off invariants, and the three spinlocks at atomic-operation granularity (SpinLocks: 3 OS threads x 2 rounds, mutual exclusion + termination under fairness). Recorded executions of the real primitives (random programs of lock / timed lock / try_lock / unlock with thread_interrupt() from photon and OS threads, 1-3 vCPUs; plain, retries-0, contending and recursive mutex; spinlock, ticket_spinlock, qspinlock with OS-thread clients) are validated by TLC against the abstract lock (linearizability with silent take-effect steps): lock()==0 iff the caller became owner, failed lock() is a no-op and only fails by timeout/interruption, the guarded region is never shared, nothing is left locked or blocked at quiescence. Tier B: the events emitted by guarded hooks inside the library at the end of each critical section (owner-word CAS and store inside atomic brackets, enqueue, interrupt / expiry claims, wake-up reasons) of further executions are validated against the critical-section protocol (Trace_MutexB.tla): hand-off only to the head of the queue and only by the owner with the internal spinlock held, a sleeper is claimed exactly once, the wake-up reason is the claim\'s reason, lock()==0 iff the owner word holds the caller. Further executions (modes +p) hold every thread for 20-80 us at the end of half of the atomic brackets (right after a lock word changed) and use spinning try_lock acquirers, so that anything the releaser still does after the release meets the next owner.',
    note='Sequential consistency is assumed in the specifications (weak-memory reorderings of the spinlocks are not decided). TLC results hold for the stated small populations; conformance runs sample schedules (seeded programs, OS scheduling on 1-3 vCPUs) and check every recorded step against the specification. A thread still blocked 10 s after all programs ended is reported as a stuck mutex.',
    technique='TLA+ model of scheduler core + mutex protocol checked exhaustively by TLC; TLC trace validation (linearizability against abstract lock) of executions recorded from the real primitives',
    design='3/C01')

PRIMS_Q = [('cmutex', 1200), ('mutex', 120), ('mutex0', 50), ('mutexc', 50), ('recmutex', 50), ('recmutex+p', 150), ('mutex+p', 60), ('mutexc+p', 40), ('spin', 30), ('qspin', 30), ('ticket', 30)]
PRIMS_T = [('cmutex', 30000), ('mutex', 1500), ('mutex0', 500), ('mutexc', 500), ('recmutex', 500), ('recmutex+p', 3000), ('mutex+p', 1000), ('mutexc+p', 600), ('spin', 300), ('qspin', 300), ('ticket', 300)]


def model_check(ctx):
    t = ctx.tier
    bad = []
    runs = [('MC_MutexCore', 'MC_MutexCore_quick.cfg', 900)]
    if t == 'thorough':
        runs.append(('MC_MutexCore', 'MC_MutexCore_contending.cfg', 1500))
    for k in ('spin', 'ticket', 'qspin'):
        runs.append(('SpinLocks', f'MC_SpinLocks_{k}.cfg', 600))
    for mod, cfg, to in runs:
        r = ctx.mc(mod, cfg, timeout=to)
        if r['rc'] != 0:
            rp = ctx.save_replay(f'mc_{cfg}.txt', r['out'][-8000:])
            ctx.violation(f'specification {mod}/{cfg} violates {r["inv_violated"] or "a property"}', rp)
            bad.append(cfg)
    return not bad


def run_traces(ctx, prims):
    h = ctx.build_harness('h_sync')
    total_rej = []
    n_exec = 0
    kinds = {}
    for prim, execs in prims:
        # "<prim>+p": the same mode with every thread held for 20-80 us at the end of half of the atomic brackets (right after a
        # lock word was released / taken), so that what the releaser still does afterwards meets the next owner (--perturb2)
        extra = ['--perturb2'] if prim.endswith('+p') else []
        tag = prim.replace('+', '_')
        prim = prim.split('+')[0]
        trace = f'{ctx.out}/{tag}.ndjson'
        rc, o, e = ctx.run_harness(h, ['--prim', prim, '--execs', execs, '--seed', ctx.seed + (17 if extra else 0), '--vcpus', 3, '--threads', 4,
                                        '--ops', 5, '--out', trace] + extra, timeout=900, ok_rcs=(0, 4))
        if rc == 124:
            raise vtlib.InfraError(f'h_sync --prim {prim} timed out')
        rows = [r for r in vtlib.read_ndjson(trace) if r.get('e') != 'Script']
        acc, rejs, n = tracecheck.validate(ctx, 'Trace_LockA', 'Trace_LockA.cfg', rows, tagbase=f'lockA_{tag}')
        n_exec += n
        for r in rows:
            k = r['e'] + (':' + r['op'] if 'op' in r else '') + (':fail' if r.get('r', 0) != 0 else '')
            kinds[k] = kinds.get(k, 0) + 1
        if prim == 'mutex' and rows:
            ex = tracecheck.split_execs(rows)
            ctx.samples.append({'recorded_execution': ex[min(3, len(ex) - 1)][:40]})
        tracecheck.report(ctx, rejs, f'{tag}', name=f'lockA_{tag}')
        total_rej += rejs
    ctx.extra['executions_recorded'] = n_exec
    ctx.extra['event_kinds'] = kinds
    return total_rej


DROP_B = ('hPreSwitch', 'hDrain', 'hHeap', 'hSteal')


def run_tier_b(ctx):
    """Tier B: the guarded hook events of mutex executions against the critical-section protocol (Trace_MutexB.tla)."""
    h = ctx.build_harness('h_sync')
    n_exec, n_hook = 0, 0
    for prim, execs in ([('mutex', 40), ('mutex0', 25), ('mutexc', 25), ('recmutex', 25)] if ctx.tier == 'quick' else
                        [('mutex', 600), ('mutex0', 300), ('mutexc', 300), ('recmutex', 300)]):
        trace = f'{ctx.out}/{prim}_B.ndjson'
        rc, o, e = ctx.run_harness(h, ['--prim', prim, '--execs', execs, '--seed', ctx.seed + 100, '--vcpus', 3, '--threads', 4,
                                        '--ops', 5, '--hooks', '--out', trace], timeout=900, ok_rcs=(0, 4))
        if rc == 124:
            raise vtlib.InfraError(f'h_sync --prim {prim} --hooks timed out')
        rows = [r for r in vtlib.read_ndjson(trace) if r['e'] not in DROP_B]
        hooks = sum(1 for r in rows if r['e'].startswith('h'))
        if not hooks:
            raise vtlib.InfraError('no hook events recorded: are the guarded hooks compiled in?')
        n_hook += hooks
        acc, rejs, n = tracecheck.validate(ctx, 'Trace_MutexB', 'Trace_MutexB.cfg', rows, tagbase=f'mutexB_{prim}', chunk_events=6000)
        n_exec += n
        tracecheck.report(ctx, rejs, f'{prim} (protocol level)', name=f'mutexB_{prim}')
        if prim == 'mutex':
            ex = tracecheck.split_execs(rows)
            ctx.samples.append({'recorded_execution_with_hook_events': ex[min(2, len(ex) - 1)][:50]})
    ctx.extra['tier_b_executions'] = n_exec
    ctx.extra['tier_b_hook_events'] = n_hook


def run(ctx):
    ctx.samples.append({'constants': open(f'{vtlib.SPEC}/MC_MutexCore_quick.cfg').read()})
    if not os.environ.get('VERIF_SKIP_MC') and not model_check(ctx):
        return ctx.finish()
    ctx.build_lib()
    run_traces(ctx, PRIMS_Q if ctx.tier == 'quick' else PRIMS_T)
    # spec -> code: every behaviour of the abstract mutex up to a length bound, enumerated by TLC, replayed by the conductor
    from checks import synccheck
    path, n = synccheck.tlc_scripts(ctx, 'mutex', 5 if ctx.tier == 'quick' else 7)
    synccheck.run_modes(ctx, [('cmutex', n)], 'Trace_LockA', 'Trace_LockA.cfg', vcpus=1, extra_args=['--scripts', path])
    run_tier_b(ctx)
    ctx.assumptions = ['sequential consistency in the specifications', 'interrupt reasons may surface at a later blocking call '
                       '(an EINTR failure is accepted whenever an interrupt was issued to that thread earlier in the execution)']
    return ctx.finish()


def replay(ctx, path):
    acc, rejs, n = tracecheck.validate(ctx, 'Trace_LockA', 'Trace_LockA.cfg', path, tagbase='replay')
    tracecheck.report(ctx, rejs, 'replay', name='replay')
    print(f'replayed {n} execution(s): {acc} accepted, {len(rejs)} rejected')
    return 1 if ctx.violations else 0
