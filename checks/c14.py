"""C14 iovector: IOVector.tla (transcription of iovector.cpp/.h vs. the flat-byte-sequence reference, every call on
every vector of a small scope, sequences of two calls on a smaller one) + h_iovec (real iovector_view / IOVector /
new_iovector, same scope + seeded random call sequences, ASan/UBSan, exact-size buffers) judged per call by
Trace_IOVector.tla."""
import os, re, json, time
import vtlib
from checks import datacheck

META = dict(
   text='TLC applies every operation of iovector_view and iovector (sum, shrink_to, shrink_less_than, truncate, extract_front/back '
        'discarding / to a buffer / as sub-vector (view with N slots, malloc\'ed view, iovector), extract_front/back_continuous, slice, '
        'memcpy_to/from buffer and vector, pipe_to/from, push/pop front/back, allocating push) as transcribed from iovector.cpp/.h to every '
        'vector of 0..3 elements of 0..2 (thorough 0..3) bytes, zero-length elements anywhere, every count 0..total+2, every offset, every '
        'destination shape, four capacity/allocator configurations, and to every two-call sequence on 0..2 elements; each outcome is judged by '
        'the reference on the flat byte sequence (count, bytes delivered, remaining bytes, untouched memory, no access outside the operands). '
        'The real classes run the same scope plus seeded random sequences of up to 8 calls on larger vectors under ASan/UBSan with an exact-size '
        'heap block per element; every recorded call (complete pre/post state) is judged by the same reference in a trace specification and '
        'compared with the transcription.',
   note='TLC result holds for the stated scope; larger vectors only through seeded random sequences. Reads outside the operands that change '
        'nothing observable are only seen by ASan (exact-size blocks; iovec arrays exact-size in the separate --tight run). Overlapping source '
        'and destination, negative slice offsets, and calls that break an assert()-ed precondition (resize beyond capacity) are outside the '
        'statement. shrink_less_than is checked against its as-implemented definition only.',
   technique='TLA+ transcription + TLC exhaustive small-scope equivalence with flat-sequence reference; trace validation of real outputs (TLC) per call',
   design='3/C14')

F7MSG = 'buf does not hold the extracted bytes where the operation puts them / bytes outside changed'
C14A_MSG = 'reads iov[0] of an empty iovector_view'
C14B_MSG = '-1 although the request can be truncated to the content'
KNOWN_TEXT = {
    'F7': 'extract_back(bytes, buf) with bytes > content returns the right count but stores the data at buf+(bytes-ret) instead of buf[0..ret)',
    'C14a': 'memcpy_to/memcpy_from/pipe with an empty iovector_view operand: iov_iterator reads iov[0], which is outside the view (nullptr for a default-constructed view)',
    'C14b': 'iovector::slice(count>0, offset, empty view) on an empty iovector returns -1 instead of an empty slice (0)',
}

def _sum(v):
    return sum(e[2] for e in v)

def classify(row, text):
    """Known-finding signatures (exact). Anything else stays a violation."""
    r = _classify(row, text)
    return r if r and r[0] in TOLERATED else None

def _classify(row, text):
    if row.get('e') == 'Fatal':
        c = row.get('case', '')
        m = re.match(r'tight view (\w+) n=(\d+) off=\d+ N=\d+ wk=v cnt=(\d+) wcnt=(\d+) ', c) if row.get('sig') in (6, 11) else None
        if m and m.group(1) in ('mtob', 'mfromb', 'mtov', 'mfromv', 'ptov', 'pfromv'):
            op, cnt, wcnt = m.group(1), int(m.group(3)), int(m.group(4))
            empty_it = cnt == 0 if op in ('mtob', 'mfromb') else (cnt == 0 or wcnt == 0) if op in ('mtov', 'mfromv') else \
                       wcnt == 0 if op == 'ptov' else cnt == 0
            if empty_it:
                return ('C14a', KNOWN_TEXT['C14a'])
        return None
    probs = set(re.findall(r'"([^"]*)"', text))
    if probs == {F7MSG} and row['op'] == 'xbb':
        T, n, ret, D = _sum(row['v']), row['n'], row['ret'], row['D']
        pre = dict((m[0], m[1]) for m in row['mem']); post = dict((m[0], m[1]) for m in row['mem2'])
        flat = [pre[b][o + j] for b, o, ln in row['v'] for j in range(ln)]
        if T > 0 and n > T and ret == T and post.get(D) == pre[D][:n - T] + flat and row['v2'] == []:
            return ('F7', KNOWN_TEXT['F7'])
    if probs == {C14B_MSG} and row['op'] == 'slice' and row['own'] and row['v'] == [] and row['N'] == 0 and row['n'] > 0 and row['ret'] == -1:
        return ('C14b', KNOWN_TEXT['C14b'])
    return None

# Findings met by this check that are not (yet) listed in known-findings.json.  Each is tolerated only with its exact signature
# (F7_sig/C14a_sig/C14b_sig in IOVector.tla, classify() below).  DELETE an id here when its fix: commit lands (and update the
# transcription in IOVectorOps.tla, see .scratch/c14/spec_after_fix.diff) or when it is entered as open in known-findings.json.
PROVISIONAL = set()     # C14a, C14b repaired by fix: commits c21d978 / 8a63aa9; F7 reclassified (placement pinned by the repository's own test)
TOLERATED = set(PROVISIONAL)     # run() adds the ids listed open for C14 in known-findings.json

def _sig(out):
    """signature of the counterexample printed by TLC (the `last` variable of the final state) -> finding id or None"""
    tail = out[out.rfind('/\\ last ='):]
    op = re.search(r'op \|-> "(\w+)"', tail); probs = set(re.findall(r'"([^"]{12,})"', tail[tail.find('probs'):]))
    n = re.search(r'\bn \|-> (\d+),\s*off', tail); T = re.search(r'\bT \|-> (\d+)', tail)
    N = re.search(r'\bN \|-> (\d+)', tail); ret = re.search(r'ret \|-> (-?\d+)', tail)
    if not (op and n and T and N and ret):
        return None, probs, tail
    op, n, T, N, ret = op.group(1), int(n.group(1)), int(T.group(1)), int(N.group(1)), int(ret.group(1))
    fid = None
    if probs == {F7MSG} and op == 'xbb' and n > T > 0: fid = 'F7'
    elif probs == {C14A_MSG} and op in ('mtob', 'mfromb', 'mtov', 'mfromv', 'ptov', 'pfromv'): fid = 'C14a'
    elif probs == {C14B_MSG} and op == 'slice' and T == 0 and N == 0 and n > 0 and ret == -1: fid = 'C14b'
    return fid, probs, tail

def _mc(ctx, cfgname, listed, timeout):
    """IOVector.tla with the committed configuration, KF = the findings listed open for C14 (normally {}: the property itself).
    If TLC reports a counterexample whose signature is exactly one of the PROVISIONAL findings, the finding is recorded and the
    run is repeated with the provisional findings tolerated (KF switch; tolerated outcomes are printed as KFHIT lines).
    Any other counterexample is a violation of C14 by the transcription."""
    base = open(f'{vtlib.SPEC}/{cfgname}').read()
    kf = set(listed)
    for attempt in range(2):
        cfg = f'{ctx.out}/{cfgname}'
        with open(cfg, 'w') as f:
            f.write(base.replace('KF = {}', 'KF = {' + ','.join(f'"{k}"' for k in sorted(kf)) + '}'))
        r = ctx.mc('IOVector', cfg, timeout=timeout, count=False, tag=cfgname.replace('.cfg', '') + f'_{attempt}')
        for fid in sorted(set(re.findall(r'^"KFHIT (\w+)"$', r['out'], re.M))):
            ctx.known(fid, KNOWN_TEXT[fid] + ' (outcome of the transcription in IOVector.tla, tolerated by the KF switch)')
        if r['rc'] == 0 and not r['inv_violated']:
            ctx.states += r['distinct']; ctx.transitions += r['generated']
            return kf
        fid, probs, tail = _sig(r['out'])
        if fid is None or fid in kf or fid not in PROVISIONAL:
            rp = ctx.save_replay(f'mc_counterexample_{cfgname}.txt', r['out'][-8000:])
            ctx.violation(f'specification IOVector ({cfgname}) violates {r["inv_violated"]}: the transcription of iovector.cpp/.h '
                          f'disagrees with the flat-sequence reference: {sorted(probs)}', rp)
            return None
        ctx.known(fid, KNOWN_TEXT[fid] + ' (TLC counterexample on the transcription)')
        ctx.extra.setdefault('mc_counterexamples', {})[fid] = tail[:1500]
        kf |= PROVISIONAL
    raise vtlib.InfraError('IOVector: unreachable')

def _harness(ctx):
    root = os.environ.get('VERIF_C14_ROOT')      # self-test only: build against a mutated copy of common/ (never /repo itself)
    if not root:
        return ctx.build_harness('h_iovec')
    out = f'{ctx.out}/h_iovec_mut'
    cmd = (f'g++ -std=c++14 -g -DNDEBUG -DPHOTON_VERIF -I{root}/include -I/repo/include -I/repo/common -I/verif/harness -Wno-deprecated-declarations -O1 '
           f'-fsanitize=address,undefined -fno-sanitize-recover=undefined -fno-omit-frame-pointer -fno-sanitize=null '
           f'/verif/harness/h_iovec.cpp {root}/common/iovector.cpp -o {out} -lpthread')
    vtlib.sh(cmd, timeout=600, check=True)
    return out

def _judge(ctx, trace, what, chunk=10000, par=10):
    """datacheck.judge for large traces: the file is split by lines (rows are parsed only when TLC reports them), chunks are
    validated by parallel TLC runs.  Returns (accepted, total, fatal)."""
    from concurrent.futures import ThreadPoolExecutor
    base = os.path.basename(trace)
    chunks, part, start, total = [], None, 0, 0
    with open(trace) as f:
        for line in f:
            if part is None:
                p = f'{ctx.out}/{base}.{len(chunks)}.part'
                part = [open(p, 'w'), p, 0, total]
            part[0].write(line); part[2] += 1; total += 1
            if part[2] >= chunk:
                part[0].close(); chunks.append(part[1:]); part = None
    if part is not None:
        part[0].close(); chunks.append(part[1:])
    def work(c):
        p, n, start = c
        return c, ctx.trace_check('Trace_IOVector', 'Trace_IOVector.cfg', p, timeout=2400, deque=False, xmx='3g',
                                  extra_env={'JAVA_TOOL_OPTIONS': '-XX:ParallelGCThreads=2 -XX:CICompilerCount=2'},
                                  tag=f'trace_{base}_{start // chunk}')
    with ThreadPoolExecutor(max_workers=par) as ex:
        results = list(ex.map(work, chunks))
    accepted, fatal = 0, False
    for (p, n, start), r in results:
        if not r['accepted']:
            raise vtlib.InfraError(f'Trace_IOVector: trace not consumed to the end (depth {r["depth"]}/{n}), see {r["log"]}')
        mm = datacheck.mismatches(r['out'])
        accepted += n - len(mm)
        if mm:
            lines = open(p).read().splitlines()
        for ln in sorted(mm):
            row = json.loads(lines[ln - 1])
            fatal = fatal or row.get('e') == 'Fatal'
            fid = classify(row, mm[ln])
            if fid:
                ctx.known(fid[0], fid[1])
                ctx.extra.setdefault('known_finding_hits_in_real_calls', {}).setdefault(fid[0], 0)
                ctx.extra['known_finding_hits_in_real_calls'][fid[0]] += 1
                continue
            if len(ctx.violations) < 5:
                rp = ctx.save_replay(f'Trace_IOVector_{start + ln}.ndjson', json.dumps(row) + '\n')
                ctx.violation(f'{what} {json.dumps(row)[:300]} :: {mm[ln]}', rp)
            else:
                ctx.violations.append((mm[ln], ''))
        os.unlink(p)
    ctx.traces_ok += accepted
    return accepted, total, fatal

def _samples(trace):
    out, ops = [], set()
    with open(trace) as f:
        for i, line in enumerate(f):
            if i > 300000: break
            m = re.search(r'"op":"(\w+)"', line)
            if m: ops.add(m.group(1))
            if i in (500, 40000) or (len(out) < 3 and '"k":3' in line):
                out.append(json.loads(line))
    return out[:3], sorted(ops)

def run(ctx):
    t = ctx.tier
    # findings listed as open for C14 in known-findings.json are tolerated from the first run on (saves the discovery rounds)
    kf = {f['id'] for f in ctx.kf.get('open', []) if f.get('property') == 'C14' and f.get('id') in KNOWN_TEXT}
    TOLERATED.update(kf)
    selftest = bool(os.environ.get('VERIF_C14_ROOT'))   # mutation self-test: the specification does not depend on /repo, skip TLC on it
    if not selftest:
        used = _mc(ctx, f'MC_IOVector_{t}.cfg', kf, 1500)      # decides with KF = listed findings first
        if used is None or _mc(ctx, f'MC_IOVector_seq_{t}.cfg', used, 1500) is None:   # sequences: same tolerance as the first ended with
            return ctx.finish()
    h = _harness(ctx)
    trace = f'{ctx.out}/iovec.ndjson'
    ctx.run_harness(h, ['--out', trace, '--seed', ctx.seed, '--tier', t], ok_rcs=(0, 3), timeout=900)
    ok, n, fatal = _judge(ctx, trace, 'call')
    # iovec arrays exact-size heap blocks as well: only ASan (or a signal) can speak here
    tight = f'{ctx.out}/iovec_tight.ndjson'
    rc, _, _ = ctx.run_harness(h, ['--out', tight, '--seed', ctx.seed, '--tier', 'quick', '--tight'], ok_rcs=(0, 3), timeout=900)
    ok2, n2, fatal2 = _judge(ctx, tight, 'call (exact-size iovec arrays)')
    samples, ops = _samples(trace)
    ctx.samples = [{'constants': open(f'{vtlib.SPEC}/MC_IOVector_{t}.cfg').read() + open(f'{vtlib.SPEC}/MC_IOVector_seq_{t}.cfg').read()}] + samples
    ctx.extra.update({'calls_executed_on_real_code': n + n2, 'calls_agreeing_with_reference': ok + ok2, 'operation_kinds': ops,
                      'tight_run_completed': rc == 0 and not fatal2, 'exhaustive': True,
                      'explanation': 'states = (vector, operation, outcome) triples of the transcription judged by the reference; '
                                     'traces = calls executed on the real classes and accepted by the reference and equal to the transcription'})
    ctx.assumptions = ['source and destination do not overlap (memcpy semantics)', 'slice offsets are non-negative',
                       'asserted preconditions hold (destination iovector has capacity for resize(iovcnt()))',
                       'a destination view of N slots is passed with empty (null, 0) slots',
                       'the allocator returns blocks of min(requested max, amax) bytes and refuses requests whose minimum exceeds amax']
    return ctx.finish()

def replay(ctx, path):
    if path.endswith('.txt'):
        print(open(path).read()[-3000:])
        print('(TLC counterexample on the specification; re-run bin/check C14 to re-check)')
        return 1
    _judge(ctx, path, 'call')
    return 1 if ctx.violations else 0
