"""C17 cache layer: cached reads return exactly the source's bytes.
 (1) TLC: Cache.tla - the read path of the full-file cache transcribed step by step (clamp, hole query + media read under
     the store read lock, refill range aligned to the refill unit, store range lock or retry, source read, three-way copy
     to the caller, media write inline or by an asynchronous writer that keeps the range lock, cache-only re-read of the
     remainder with source fall-back; whole-file eviction under the write lock, then bookkeeping; forceRecycle sweeps run
     by a writer; reopen) - all interleavings of 2 readers, their media writers and an evictor on 1-2 files of 3 blocks +
     tail; broken variants kept as witnesses.
 (2) conformance: harness/h_cache.cpp drives the real cache (new_full_file_cached_fs, and FileCachePool with the
     asynchronous refill enabled) between a recording source fs and a logged real media directory; every recorded
     execution is replayed by TLC on Trace_CacheA.tla (content function evaluated by TLC, media model driven by the
     logged media operations)."""
import glob, json, os, re, shutil
from concurrent.futures import ThreadPoolExecutor
import vtlib
from checks import tracecheck, synccheck

META = dict(
    text='TLC exhausts the read path of the full-file cache as written (Cache.tla: clamp to the size; under the store read lock '
         'hole query, by extent map or by the in-memory filled-range map, then media read; on a miss the refill range aligned to the '
         'refill unit and clamped; store byte-range lock or wait-and-retry; source read that may fail or return short once; the three '
         'placements of the overlapping part into the caller\'s buffer; media write in two steps under the media range lock, inline or by '
         'an asynchronous writer that keeps the store range lock; cache-only re-read of the remainder with fall-back to the source; '
         'whole-file eviction under the write lock followed by bookkeeping, issued explicitly, by a timer sweep or by a writer that finds '
         'the pool full; a new pool instance over the same media) for all interleavings of 2 readers, their writers and an evictor on '
         '1-2 files of 3 blocks + a partial tail with refill units of 1 and 2 blocks, and decides ReadsEqualSource, NeverBeyondSize, '
         'FailedSourceNeverWrongBytes, MediaOnlyCorrectOrHole, RefillDedup and freedom from deadlock between the read/write lock and the '
         'two range locks; six broken variants (eviction without the write lock, query ignoring the media range lock, unclamped refill, '
         'short source read accepted, tail placed at the front, asynchronous writer without the range lock) must each be caught. The real '
         'cache is then run between a recording source (content = function of file and position, every read logged, one scripted fault) '
         'and a real media directory whose every pwritev / preadv / ftruncate / fallocate / extent query / unlink is logged and perturbed '
         'by seeded yields, with 1-3 readers (unaligned offsets and lengths, past the end, 1-4 iovec elements incl. empty ones), sizes '
         'with a partial tail, refill units 4K-64K, 1-2 files, explicit evictions from the same or a second vCPU, capacity 0 (every '
         'write triggers a sweep, plus a fast timer), asynchronous refill, punching at rest, and re-opening the media directory with a '
         'new pool; TLC replays every execution: each read must return exactly the bytes of the content function for the clamped range '
         '(or fail / return an exact shorter prefix only when the source faulted in that read), no source or media read reaches beyond '
         'the size, every media write carries the source\'s bytes of its range, and no media read delivers a byte that was not written '
         'from the source since the last truncation or punch.',
    note='TLC results hold for the stated small populations and sizes (units of half a block). The pool mutex is treated as a leaf '
         'lock (argued from the code, not explored). The kernel and the file system are assumptions: extent queries are answered by '
         'the harness from SEEK_DATA/SEEK_HOLE of the real file, and recorded media answers are only checked for consistency with what '
         'was written. Media write failures and short media writes are not injected. The asynchronous refill is exercised through a '
         'derived pool class because no factory in this tree enables it for the full-file cache; the quota pool is not covered. Bytes '
         'are compared through a position tag modulo 251, so a displacement by a multiple of 251 bytes inside one file would go unseen. '
         'Conformance samples schedules (seeded yields on one vCPU, a second vCPU for evictions).',
    technique='TLA+ step-level model of the cache read / refill / eviction protocol checked exhaustively by TLC (with broken variants as '
              'witnesses); TLC trace validation of executions recorded from the real cache between a recording source and a logged media '
              'directory',
    design='3/C17')

INV = 'ReadsEqualSource FailedSourceNeverWrongBytes NeverBeyondSize MediaOnlyCorrectOrHole RefillDedup RangeLockDisjoint RefillingCount LocksAtRest TypeOK'
# (cfg, expected violated invariant or None)
MC_Q = [('MC_Cache_quick.cfg', None), ('MC_Cache_quick_async.cfg', None), ('MC_Cache_w_nomrl.cfg', 'ReadsEqualSource'),
        ('MC_Cache_kf_punchend.cfg', 'KF')]
MC_T = [('MC_Cache_quick.cfg', None), ('MC_Cache_quick_async.cfg', None),
        ('MC_Cache_t_fiemap.cfg', None), ('MC_Cache_t_fiemap_ru2.cfg', None), ('MC_Cache_t_map.cfg', None), ('MC_Cache_t_capfull.cfg', None),
        ('MC_Cache_t_2files.cfg', None), ('MC_Cache_t_reopen.cfg', None), ('MC_Cache_t_punchend.cfg', None),
        ('MC_Cache_kf_punchend.cfg', 'KF'),
        ('MC_Cache_w_nomrl.cfg', 'ReadsEqualSource'), ('MC_Cache_w_nowlock.cfg', 'ReadsEqualSource'),
        ('MC_Cache_w_noclamp.cfg', 'NeverBeyondSize'), ('MC_Cache_w_shortok.cfg', 'ReadsEqualSource'),
        ('MC_Cache_w_tailfront.cfg', 'ReadsEqualSource'), ('MC_Cache_w_asyncunlock.cfg', 'RefillDedup')]
MODES_Q = [('map', 40), ('fiemap', 40), ('capfull', 30), ('async', 40), ('punchend', 2)]
MODES_T = [('map', 600), ('fiemap', 600), ('capfull', 450), ('async', 600), ('punchend', 12)]


mc_finding = []      # replay files of the model-level counterexample of C17a


def model_check(ctx, runs, workers, par):
    """positive configurations must pass, witnesses must be caught.  Returns False when the specification itself fails."""
    def one(run):
        cfg, expect = run
        return run, ctx.mc('MC_Cache', cfg, timeout=2400, workers=workers, count=(expect is None), xmx='6g',
                           tag=cfg.replace('.cfg', ''))
    ok = True
    with ThreadPoolExecutor(max_workers=par) as ex:
        results = list(ex.map(one, runs))
    caught = {}
    for (cfg, expect), r in results:
        if expect is None:
            if r['rc'] != 0:
                rp = ctx.save_replay(f'mc_{cfg}.txt', r['out'][-12000:])
                ctx.violation(f'specification Cache/{cfg} violates {r["inv_violated"] or ("deadlock" if r["deadlock"] else "a property")}', rp)
                ok = False
        elif expect == 'KF':
            # the finding C17a in the model as written (PunchGuard = FALSE): documented counterexample, not a witness of vacuity
            ctx.extra['model_as_written_violates_with_evict_to_end_past_the_end'] = r['inv_violated']
            if r['inv_violated'] and not (set(r['inv_violated']) <= {'ReadsEqualSource', 'NeverBeyondSize'}):
                raise vtlib.InfraError(f'Cache.tla / {cfg}: unexpected invariant {r["inv_violated"]}')
            if r['inv_violated']:
                mc_finding.append(ctx.save_replay(f'mc_{cfg}.txt', r['out'][-12000:]))
        else:
            caught[cfg] = r['inv_violated']
            if expect not in r['inv_violated']:
                raise vtlib.InfraError(f'Cache.tla: the broken variant {cfg} is not detected as {expect} (got {r["inv_violated"]}): vacuous model')
    ctx.extra['broken_variants_detected'] = caught
    return ok


def why(rj):
    """reason printed by the trace specification for the rejected event"""
    try:
        with open(rj['log'], errors='replace') as f:
            txt = f.read()
    except OSError:
        return ''
    m = re.findall(r'<<\s*"WHY",\s*(\d+),\s*"((?:[^"\\]|\\.)*)"\s*>>', txt, re.S)
    return re.sub(r'\s+', ' ', m[-1][1]).replace('\\"', '"') if m else ''


# Finding met by this check on the pinned tree.  It is tolerated (printed as a KNOWN-FINDING line) only when
# known-findings.json lists it as open for C17, and only with its exact signature: classify() below.  While it is not
# listed it is reported as a VIOLATION.  DELETE the id here (and KF_C17A in Trace_CacheA.tla, MC_Cache_kf_punchend.cfg)
# when a fix: commit lands.
KNOWN_TEXT = {}      # C17a (F30) repaired by fix: 446b617; MC_Cache_kf_punchend.cfg documents the pre-repair behaviour
TOLERATED = set()


def _tolerated(ctx):
    TOLERATED.update(f['id'] for f in ctx.kf.get('open', []) if f.get('property') == 'C17' and f.get('id') in KNOWN_TEXT)


def signature_c17a(rj):
    """exact shape: before the rejected event, an evict-to-end on file f at an offset beyond f's size (a later store of f - new pool instance,
    or the same pool after the idle store expired - then believes the extended size); the rejected event is a read of f (its result, or a
    source / media read made for f)"""
    ex, at = rj['exec'], rj['at']
    ev = ex[at - 1]
    sizes = ex[0].get('sizes', [])
    f = ev.get('f')
    if ev['e'] == 'ReadResp':
        inv = [r for r in ex[:at - 1] if r['e'] == 'ReadInv' and r['t'] == ev['t']]
        f = inv[-1]['f'] if inv else None
    if ev['e'] not in ('ReadResp', 'SrcRead', 'MediaRead') or f is None or f >= len(sizes):
        return False
    return any(r['e'] == 'PunchInv' and r['f'] == f and r['len'] == -1 and r['off'] > sizes[f] for r in ex[:at - 1])


def classify(ctx, rj):
    if 'C17a' not in KNOWN_TEXT or not signature_c17a(rj):
        return None
    if not synccheck.accepted_with(ctx, 'Trace_CacheA', 'Trace_CacheA.cfg', rj, {'KF_C17A': '1'}, 'Trace_CacheA_kf'):
        return None
    return 'C17a'


def report(ctx, rejs, what):
    _tolerated(ctx)
    for rj in rejs:
        reason = why(rj)
        ev = rj['event']
        if reason.startswith('ENV:') or reason.startswith('harness:'):
            raise vtlib.InfraError(f'{what}: the recorded environment is not one the media model allows - {reason}; event {json.dumps(ev)[:300]} (log {rj["log"]})')
        fid = classify(ctx, rj)
        if fid and fid in TOLERATED:
            ctx.known(fid, KNOWN_TEXT[fid])
            continue
        lines = [json.dumps(r, separators=(',', ':')) for r in rj['exec']]
        rp = ctx.save_replay(f'Trace_CacheA_{what}_{len(ctx.violations)}.ndjson', '\n'.join(lines) + '\n')
        tag = f' [finding {fid}, not listed in known-findings.json: {KNOWN_TEXT[fid]}]' if fid else ''
        ctx.violation(f'{what}: recorded execution rejected at event #{rj["at"]} {json.dumps(ev)[:240]} :: {reason or "no action of the trace specification accepts it"}{tag}', rp)


def drop_logs(ctx):
    """TLC prints the whole accepted behaviour (that is how acceptance shows): tens of MB per chunk; keep the logs of rejections only"""
    for p in glob.glob(f'{ctx.out}/tlc_Trace_CacheA*.log'):
        try:
            if os.path.getsize(p) > (1 << 20):
                os.unlink(p)
        except OSError:
            pass


def clean_media(ctx):
    for d in glob.glob(f'{ctx.out}/media-*'):
        shutil.rmtree(d, ignore_errors=True)


def record(ctx, h, prim, execs):
    trace = f'{ctx.out}/{prim}.ndjson'
    rc, o, e = ctx.run_harness(h, ['--prim', prim, '--execs', execs, '--seed', ctx.seed, '--vcpus', 2, '--threads', 3,
                                    '--ops', 6, '--out', trace], timeout=1500, ok_rcs=(0, 3, 4))
    if rc == 124:
        raise vtlib.InfraError(f'h_cache --prim {prim} timed out')
    rows = vtlib.read_ndjson(trace)
    os.unlink(trace)
    if not rows:
        raise vtlib.InfraError(f'h_cache --prim {prim} recorded nothing')
    return prim, rows


def run(ctx):
    quick = ctx.tier == 'quick'
    ctx.samples.append({'constants': open(f'{vtlib.SPEC}/MC_Cache_quick.cfg').read()})
    pool = ThreadPoolExecutor(max_workers=1)
    mc = None
    if not os.environ.get('VERIF_SKIP_MC'):       # model checking runs beside the build and the recording
        mc = pool.submit(model_check, ctx, MC_Q if quick else MC_T, 4 if quick else 6, 3)
    try:
        ctx.build_lib()
        h = ctx.build_harness('h_cache')
        kinds, reads = {}, 0
        try:
            with ThreadPoolExecutor(max_workers=4) as ex:
                recs = list(ex.map(lambda m: record(ctx, h, m[0], m[1]), MODES_Q if quick else MODES_T))
        finally:
            clean_media(ctx)
        allrows, directed = [], []
        for prim, rows in recs:
            for r in rows:
                k = r['e']
                if k == 'ReadResp':
                    reads += 1
                    k += ':err' if r['ret'] < 0 else ''
                if k == 'SrcRead' and r.get('fault'):
                    k += ':fault'
                kinds[k] = kinds.get(k, 0) + 1
            ex_ = tracecheck.split_execs(rows)
            if len(ctx.samples) < 6:
                ctx.samples.append({'mode': prim, 'recorded_execution': ex_[min(1, len(ex_) - 1)][:40]})
            if prim == 'punchend':
                directed += rows
            else:
                allrows += rows
        # the directed scenario is validated beside the random programs (a rejection costs three more TLC runs)
        with ThreadPoolExecutor(max_workers=2) as ex:
            fa = ex.submit(tracecheck.validate, ctx, 'Trace_CacheA', 'Trace_CacheA.cfg', allrows, 3500 if quick else 12000, 6, 900, 6, None, 'Trace_CacheA')
            fb = ex.submit(tracecheck.validate, ctx, 'Trace_CacheA', 'Trace_CacheA.cfg', directed, 800, 4, 900, 6, None, 'Trace_CacheA_d') if directed else None
            acc, rejs, n = fa.result()
            if fb:
                acc2, rejs2, n2 = fb.result()
                rejs, n = rejs + rejs2, n + n2
        report(ctx, rejs, 'execution')
        drop_logs(ctx)
        ctx.extra.update({'executions_recorded': n, 'cached_reads_judged': reads, 'event_kinds': kinds})
        # anti-vacuity of the conformance part: hits, refills, evictions, faults and reopening must all have occurred
        missing = [k for k in ('MediaRead', 'MediaWrite', 'MediaTrunc', 'SrcRead', 'SrcRead:fault', 'Reopen', 'EvictInv') if not kinds.get(k)]
        if missing:
            raise vtlib.InfraError(f'h_cache: no {missing} events recorded (vacuous run)')
    finally:
        ok = mc.result() if mc else True
        pool.shutdown()
    ctx.assumptions = ['the source file does not change during a run', 'range punching only while no read is in flight, with aligned offsets',
                       'kernel / file system: pread, pwrite, ftruncate, punch and SEEK_DATA / SEEK_HOLE behave as documented',
                       'sequential consistency in the specification; m_lock_ is a leaf lock']
    return ctx.finish()


def replay(ctx, path):
    path = os.path.abspath(path)
    if not os.path.exists(path):
        raise vtlib.InfraError(f'replay file not found: {path}')
    if os.path.basename(path).startswith('mc_'):
        cfg = os.path.basename(path)[3:-4]
        r = ctx.mc('MC_Cache', cfg, timeout=2400, workers=8, xmx='6g')
        if r['rc'] != 0:
            ctx.violation(f'specification Cache/{cfg} violates {r["inv_violated"]}', ctx.save_replay(f'mc_{cfg}.txt', r['out'][-12000:]))
        return 1 if ctx.violations else 0
    acc, rejs, n = tracecheck.validate(ctx, 'Trace_CacheA', 'Trace_CacheA.cfg', path, tagbase='replay')
    report(ctx, rejs, 'replay')
    drop_logs(ctx)
    print(f'replayed {n} execution(s): {acc} accepted, {len(rejs)} rejected')
    for fid in sorted({f for f, _ in ctx.known_hits}):
        print(f'KNOWN-FINDING: property={ctx.pid} {fid}: {KNOWN_TEXT[fid]}', flush=True)
    return 1 if ctx.violations else 0
