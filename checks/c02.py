"""C02 semaphore.
 (1) TLC: Semaphore.tla (critical-section level: wait_interruptible / try_subtract / try_resume / signal with explicit
     splock, wait-queue lock and per-thread locks, timeouts and interrupts as the scheduler's dequeue under the thread
     lock) for Conservation, NoLostWakeup (in-order and out-of-order), NoSelfDeadlock / deadlock freedom, QueueSane and
     the destroy-after-wait guarantee.
 (2) conformance, Tier A: h_sync --prim sem | semooo | semdestroy; recorded executions validated against the abstract
     counting semaphore (Trace_SemA.tla)."""
import os
import vtlib
from checks import synccheck

META = dict(
    text='TLC exhausts the semaphore protocol at critical-section granularity (Semaphore.tla: 3 waiters with demands 2/1/1, 2 signallers adding 1 and 2, initial count 0 and 1, in-order and out-of-order resume, two waiters that may time out or be interrupted at any point; every nested spinlock acquisition is a blocking step) for token conservation, no-lost-wake-up at rest, absence of self-deadlock / lock-order deadlock, queue consistency, and signaller-finished-before-destroy. Recorded executions of the real semaphore (random wait / wait_interruptible with timeouts 0/short/inf, signal from photon threads and plain OS threads, interrupts, 1-3 vCPUs, both resume modes, plus a destroy-immediately-after-wait scenario on poisoned storage) are validated by TLC against the abstract counting semaphore: wait()==0 iff tokens were taken atomically, failed waits take nothing and only fail by timeout/interruption, count() matches the ledger whenever the execution is at rest, and no thread is asleep while the count covers every blocked demand (any blocked demand in out-of-order mode). Scripted one-vCPU sequences (conductor: explicit arrival orders, time advances and interrupts) are judged the same way. Tier B: the hook events emitted under the internal spinlock (count changes, resumes, enqueues, timeout / interrupt dequeues) are validated against the protocol, and at the end of every resume pass of the real execution (signal() returned, a wait failed) the head of the queue (any waiter, out-of-order mode) must not be covered by the unpromised tokens.',
    note='TLC results hold for the stated populations. Conformance samples schedules. "Asleep" is judged by the library itself (thread state SLEEPING at two inspections 10 ms apart with no progress). The use-after-destroy clause is observed through poisoned storage and crashes only (no sanitizer in the quick tier).',
    technique='TLA+ critical-section model checked exhaustively by TLC; TLC trace validation (linearizability against abstract counting semaphore) of executions recorded from the real semaphore',
    design='3/C02')

MODES_Q = [('sem', 150), ('semooo', 100), ('semdestroy', 20), ('csem', 1200)]
MODES_T = [('sem', 2000), ('semooo', 1500), ('semdestroy', 300), ('csem', 30000)]
MC = [('MC_Semaphore', 'MC_Semaphore_inorder.cfg', 900), ('MC_Semaphore', 'MC_Semaphore_inorder1.cfg', 900),
      ('MC_Semaphore', 'MC_Semaphore_ooo.cfg', 900), ('MC_Semaphore', 'MC_Semaphore_destroy.cfg', 300)]


DROP_B = ('hPreSwitch', 'hDrain', 'hHeap', 'hSteal', 'Script')


def run_tier_b(ctx):
    """Tier B: hook events emitted under the semaphore's internal spinlock against the critical-section protocol, with the
    no-lost-wake-up predicate evaluated at the end of every resume pass of the real execution (Trace_SemB.tla)."""
    from checks import tracecheck
    h = ctx.build_harness('h_sync')
    n_exec, n_hook = 0, 0
    q = ctx.tier == 'quick'
    for prim, execs, vc in [('sem', 60 if q else 1500, 3), ('semooo', 40 if q else 1000, 3), ('csem', 600 if q else 20000, 1)]:
        trace = f'{ctx.out}/{prim}_B.ndjson'
        rc, o, e = ctx.run_harness(h, ['--prim', prim, '--execs', execs, '--seed', ctx.seed + 200, '--vcpus', vc, '--threads', 4,
                                        '--ops', 5, '--hooks', '--out', trace], timeout=1500, ok_rcs=(0, 4))
        if rc == 124:
            raise vtlib.InfraError(f'h_sync --prim {prim} --hooks timed out')
        rows = [r for r in vtlib.read_ndjson(trace) if r['e'] not in DROP_B]
        hooks = sum(1 for r in rows if r['e'].startswith('hSem'))
        if not hooks:
            raise vtlib.InfraError('no semaphore hook events recorded: are the guarded hooks compiled in?')
        n_hook += hooks
        acc, rejs, n = tracecheck.validate(ctx, 'Trace_SemB', 'Trace_SemB.cfg', rows, tagbase=f'semB_{prim}', chunk_events=6000)
        n_exec += n
        tracecheck.report(ctx, rejs, f'{prim} (protocol level)', name=f'semB_{prim}')
    ctx.extra['tier_b_executions'] = n_exec
    ctx.extra['tier_b_hook_events'] = n_hook


def run(ctx):
    ctx.samples.append({'constants': open(f'{vtlib.SPEC}/MC_Semaphore_inorder.cfg').read()})
    if not os.environ.get('VERIF_SKIP_MC') and not synccheck.mc_all(ctx, MC):
        return ctx.finish()
    ctx.build_lib()
    synccheck.run_modes(ctx, MODES_Q if ctx.tier == 'quick' else MODES_T, 'Trace_SemA', 'Trace_SemA.cfg')
    run_tier_b(ctx)
    ctx.assumptions = ['sequential consistency in the specification', 'kernel / OS scheduling picks the interleavings that are sampled']
    return ctx.finish()


def replay(ctx, path):
    return synccheck.replay(ctx, 'Trace_SemA', 'Trace_SemA.cfg', path)
