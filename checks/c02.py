"""C02 semaphore.
 (1) TLC: Semaphore.tla (critical-section level: wait_interruptible / try_subtract / try_resume / signal with explicit
     splock, wait-queue lock and per-thread locks, timeouts and interrupts as the scheduler's dequeue under the thread
     lock) for Conservation, NoLostWakeup (in-order and out-of-order), NoSelfDeadlock / deadlock freedom, QueueSane and
     the destroy-after-wait guarantee.
 (2) conformance, Tier A: h_sync --prim sem | semooo | semdestroy; recorded executions validated against the abstract
     counting semaphore (Trace_SemA.tla)."""
import os
import vtlib
from checks import synccheck

META = dict(
    text='TLC exhausts the semaphore protocol at critical-section granularity (Semaphore.tla: 3 waiters with demands 2/1/1, 2 signallers adding 1 and 2, initial count 0 and 1, in-order and out-of-order resume, two waiters that may time out or be interrupted at any point; every nested spinlock acquisition is a blocking step) for token conservation, no-lost-wake-up at rest, absence of self-deadlock / lock-order deadlock, queue consistency, and signaller-finished-before-destroy. Recorded executions of the real semaphore (random wait / wait_interruptible with timeouts 0/short/inf, signal from photon threads and plain OS threads, interrupts, 1-3 vCPUs, both resume modes, plus a destroy-immediately-after-wait scenario on poisoned storage) are validated by TLC against the abstract counting semaphore: wait()==0 iff tokens were taken atomically, failed waits take nothing and only fail by timeout/interruption, count() matches the ledger whenever the execution is at rest, and no thread is asleep while the count covers every blocked demand (any blocked demand in out-of-order mode).',
    note='TLC results hold for the stated populations. Conformance samples schedules. "Asleep" is judged by the library itself (thread state SLEEPING at two inspections 10 ms apart with no progress). The use-after-destroy clause is observed through poisoned storage and crashes only (no sanitizer in the quick tier).',
    technique='TLA+ critical-section model checked exhaustively by TLC; TLC trace validation (linearizability against abstract counting semaphore) of executions recorded from the real semaphore',
    design='3/C02')

MODES_Q = [('sem', 150), ('semooo', 100), ('semdestroy', 20), ('csem', 1200)]
MODES_T = [('sem', 2000), ('semooo', 1500), ('semdestroy', 300), ('csem', 30000)]
MC = [('MC_Semaphore', 'MC_Semaphore_inorder.cfg', 900), ('MC_Semaphore', 'MC_Semaphore_inorder1.cfg', 900),
      ('MC_Semaphore', 'MC_Semaphore_ooo.cfg', 900), ('MC_Semaphore', 'MC_Semaphore_destroy.cfg', 300)]


def run(ctx):
    ctx.samples.append({'constants': open(f'{vtlib.SPEC}/MC_Semaphore_inorder.cfg').read()})
    if not os.environ.get('VERIF_SKIP_MC') and not synccheck.mc_all(ctx, MC):
        return ctx.finish()
    ctx.build_lib()
    synccheck.run_modes(ctx, MODES_Q if ctx.tier == 'quick' else MODES_T, 'Trace_SemA', 'Trace_SemA.cfg')
    ctx.assumptions = ['sequential consistency in the specification', 'kernel / OS scheduling picks the interleavings that are sampled']
    return ctx.finish()


def replay(ctx, path):
    return synccheck.replay(ctx, 'Trace_SemA', 'Trace_SemA.cfg', path)
