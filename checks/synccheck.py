"""Shared flow of the Tier-A conformance part of the synchronisation / scheduler properties (C01-C04, C06):
run harness/h_sync in several modes, validate every recorded execution with a trace specification, and
classify rejections (known findings are recognised by re-validating the rejected execution with the finding's
KF switch enabled in the specification AND by the recorded signature of the finding)."""
import json
import vtlib
from checks import tracecheck


def run_modes(ctx, modes, module, cfg, classify=None, vcpus=3, threads=4, ops=5, harness='h_sync', extra_args=(), extra_env=None, on_rows=None):
    """modes: list of (prim, executions).  Returns dict with counters; violations are reported through ctx."""
    h = ctx.build_harness(harness)
    kinds, n_exec, n_rej = {}, 0, 0
    for prim, execs in modes:
        trace = f'{ctx.out}/{prim}.ndjson'
        rc, o, e = ctx.run_harness(h, ['--prim', prim, '--execs', execs, '--seed', ctx.seed, '--vcpus', vcpus,
                                        '--threads', threads, '--ops', ops, '--out', trace] + list(extra_args),
                                   timeout=1500, ok_rcs=(0, 3, 4))
        if rc == 124:
            raise vtlib.InfraError(f'{harness} --prim {prim} timed out')
        rows = vtlib.read_ndjson(trace)
        if not rows:
            raise vtlib.InfraError(f'{harness} --prim {prim} recorded nothing')
        scripts = [r for r in rows if r.get('e') == 'Script']
        rows = [r for r in rows if r.get('e') != 'Script']     # the executed script of a conductor run: documentation only
        if scripts:
            ctx.extra['conductor_scripts'] = ctx.extra.get('conductor_scripts', 0) + len(scripts)
        if on_rows:
            on_rows(prim, rows)
        acc, rejs, n = tracecheck.validate(ctx, module, cfg, rows, tagbase=f'{module}_{prim}', extra_env=extra_env)
        n_exec += n
        n_rej += len(rejs)
        for r in rows:
            k = r['e'] + (':' + str(r['op']) if 'op' in r else '') + (':fail' if r.get('r', 0) not in (0, None) and r['e'] == 'Resp' and r.get('op') not in ('notify_one', 'notify_all') else '')
            kinds[k] = kinds.get(k, 0) + 1
        ex = tracecheck.split_execs(rows)
        if len(ctx.samples) < 6:
            ctx.samples.append({'mode': prim, 'recorded_execution': ex[min(2, len(ex) - 1)][:30]})
        tracecheck.report(ctx, rejs, prim, classify=(lambda rj, prim=prim: classify(ctx, prim, rj)) if classify else None,
                          name=f'{module}_{prim}')
    ctx.extra.setdefault('executions_recorded', 0)
    ctx.extra['executions_recorded'] += n_exec
    ek = ctx.extra.setdefault('event_kinds', {})
    for k, v in kinds.items():
        ek[k] = ek.get(k, 0) + v
    return {'executions': n_exec, 'rejected': n_rej}


def accepted_with(ctx, module, cfg, rj, env, tag):
    """re-validate one rejected execution with a known-finding switch enabled"""
    acc, rejs, n = tracecheck.validate(_Quiet(ctx), module, cfg, rj['exec'], extra_env=env, tagbase=tag)
    return not rejs


class _Quiet:
    """proxy that keeps counters of a secondary validation out of the evidence"""
    def __init__(self, ctx):
        self._c = ctx
        self.traces_ok = 0
    def __getattr__(self, k):
        return getattr(self._c, k)


def replay(ctx, module, cfg, path, classify=None):
    acc, rejs, n = tracecheck.validate(ctx, module, cfg, path, tagbase='replay')
    tracecheck.report(ctx, rejs, 'replay', classify=(lambda rj: classify(ctx, 'replay', rj)) if classify else None, name='replay')
    print(f'replayed {n} execution(s): {acc} accepted, {len(rejs)} rejected')
    for fid, what in ctx.known_hits:
        print(f'KNOWN-FINDING: property={ctx.pid} {fid}: {what}')
    return 1 if ctx.violations else 0


def mc_all(ctx, runs):
    """runs: list of (module, cfg, timeout[, kwargs]).  A violated property of a specification is a violation."""
    ok = True
    for run in runs:
        mod, cfg, to = run[:3]
        kw = run[3] if len(run) > 3 else {}
        r = ctx.mc(mod, cfg, timeout=to, **kw)
        if r['rc'] != 0:
            rp = ctx.save_replay(f'mc_{cfg}.txt', r['out'][-8000:])
            ctx.violation(f'specification {mod}/{cfg} violates {r["inv_violated"] or "a property"}', rp)
            ok = False
    return ok


def tlc_scripts(ctx, kind, maxlen, nt=3):
    """spec -> code: TLC enumerates every behaviour of the abstract lock (spec/SyncScripts.tla) up to `maxlen` steps and prints
    each as a script for the conductor of h_sync.  Returns (path of the script file, number of scripts)."""
    import re
    cfg = f'{ctx.out}/MC_SyncScripts_{kind}_{maxlen}.cfg'
    with open(cfg, 'w') as f:
        f.write(f'SPECIFICATION Spec\nCONSTANTS\n  NT = {nt}\n  MaxLen = {maxlen}\n  Kind = "{kind}"\nINVARIANT Emit\nCHECK_DEADLOCK FALSE\n')
    r = ctx.mc('SyncScripts', cfg, timeout=1800, workers=1, tag=f'scripts_{kind}_{maxlen}')
    if r['rc'] != 0:
        raise vtlib.InfraError(f'SyncScripts.tla ({kind}, {maxlen}) did not complete: see {r["log"]}')
    scripts = re.findall(r'^"SCRIPT (.*?) ?"$', r['out'], re.M)
    if not scripts:
        raise vtlib.InfraError('SyncScripts.tla printed no scripts')
    path = f'{ctx.out}/scripts_{kind}_{maxlen}.txt'
    with open(path, 'w') as f:
        f.write('\n'.join(scripts) + '\n')
    ctx.extra.setdefault('tlc_generated_scripts', {})[f'{kind}/{maxlen}'] = len(scripts)
    return path, len(scripts)
