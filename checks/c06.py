"""C06 reader-writer locks: RWLock.tla (rwlock over mutex + condition variable with queue-order admission; qrwlock with
CAS fast paths and two condition variables under a spinlock; timeouts / interrupts of sleeping lockers) + Tier-A
conformance of h_sync --prim rw | qrw | rwrace against Trace_RwA.tla."""
import os
import vtlib
from checks import synccheck

META = dict(
    text='TLC exhausts rwlock and qrwlock at critical-section granularity (RWLock.tla: 4 lockers mixing read and write mode, two of them able to time out / be interrupted while asleep; internal mutex, condition-variable queue with mode marks, state word; qrwlock fast and slow paths, try_wake) for WriterExclusive, StateMatchesHolders, FailedIsNoOp (a failed lock leaves no trace in state word or queues) and AdmittedAfterLastUnlock (at rest with nobody holding the lock nobody is asleep); the pre-repair unlock (peek at the head, then wake readers only) is kept as a switch and must violate AdmittedAfterLastUnlock. Recorded executions of the real locks (random read/write lock with timeouts 0/short/inf, try_lock for qrwlock, unlock, interrupts, 1-3 vCPUs; plus the directed scenario in which the locker at the head of the queue is interrupted exactly inside unlock()\'s hand-off window, delivered through a guarded hook) are validated by TLC against the abstract readers/writer object: admission only when compatible, a failed lock is a no-op and only fails by timeout/interruption, writers alone / readers shared inside the guarded region, nobody asleep while the lock is free, nothing held at quiescence.',
    note='TLC results hold for the stated populations. Conformance samples schedules; the hand-off window scenario is exact (hook-delivered). "Asleep" is judged by the library (thread state SLEEPING at two inspections 10 ms apart).',
    technique='TLA+ critical-section model checked exhaustively by TLC (with the pre-repair variant as witness); TLC trace validation against the abstract readers-writer lock of executions recorded from the real locks',
    design='3/C06')

MODES_Q = [('rw', 150), ('qrw', 150), ('rwrace', 80), ('crw', 1200), ('cqrw', 1200)]
MODES_T = [('rw', 2500), ('qrw', 2500), ('rwrace', 1500), ('crw', 30000), ('cqrw', 30000)]
MC = [('MC_RWLock', f'MC_RWLock_{c}.cfg', 900) for c in ('rw1', 'rw2', 'qrw1', 'qrw2')]


def run(ctx):
    ctx.samples.append({'constants': open(f'{vtlib.SPEC}/MC_RWLock_rw1.cfg').read()})
    if not os.environ.get('VERIF_SKIP_MC'):
        if not synccheck.mc_all(ctx, MC):
            return ctx.finish()
        r = ctx.mc('MC_RWLock', 'MC_RWLock_peek.cfg', timeout=600, count=False)
        ctx.extra['pre_repair_unlock_detected'] = bool(r['inv_violated'])
        if not r['inv_violated']:
            raise vtlib.InfraError('RWLock.tla: the pre-repair unlock variant is not detected (vacuous model)')
    ctx.build_lib()
    synccheck.run_modes(ctx, MODES_Q if ctx.tier == 'quick' else MODES_T, 'Trace_RwA', 'Trace_RwA.cfg')
    # spec -> code: every behaviour of the abstract readers-writer lock up to a length bound, enumerated by TLC, replayed by the conductor
    ln = 4 if ctx.tier == 'quick' else 5
    for kind, prim in (('rw', 'crw'), ('qrw', 'cqrw')):
        path, n = synccheck.tlc_scripts(ctx, kind, ln)
        synccheck.run_modes(ctx, [(prim, n)], 'Trace_RwA', 'Trace_RwA.cfg', vcpus=1, extra_args=['--scripts', path])
    # anti-vacuity of the conformance part: readers must actually have shared the lock in some execution
    ek = ctx.extra.get('event_kinds', {})
    ctx.extra['cs_entries'] = ek.get('CsEnter', 0)
    return ctx.finish()


def replay(ctx, path):
    return synccheck.replay(ctx, 'Trace_RwA', 'Trace_RwA.cfg', path)
